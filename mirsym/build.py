"""Builders for (symbolic) inputs of the kernels, keyed by *source* field / variant names
so that a refactor that reorders or adds members makes a check inconclusive instead of wrong."""
import z3

from vm import Agg, SymEnum, Ptr, StrV, VecV, Opaque, State, bv, none, some, mk_bool, Unsupported


class Builder:
    def __init__(self, loaded, st):
        self.L = loaded
        self.st = st

    def struct(self, _sname, **fields):
        name = _sname
        order = self.L.structs.get(name)
        if order is None:
            raise Unsupported(f'struct {name} not found in sources')
        names = [f[2:] if f.startswith('r#') else f for f in order]
        given = {k.rstrip('_'): v for k, v in fields.items()}
        # `opt_<member>=value`: supplied only when the struct has that member (lets a kernel follow a benign layout change)
        for k in [k for k in given if k.startswith('opt_')]:
            v = given.pop(k)
            if k[4:] in names:
                given[k[4:]] = v
        if set(given) != set(names):
            raise Unsupported(f'struct {name}: fields in source {names} != fields the check provides {sorted(given)}')
        return Agg(None, [given[n] for n in names], name.split('::')[-1])

    def variant(self, enum, variant, *payload):
        vs = self.L.enums.get(enum)
        if vs is None or variant not in vs:
            raise Unsupported(f'enum {enum}::{variant} not found in sources')
        return Agg(vs.index(variant), payload, enum)   # the tag keeps the qualified name: it disambiguates same-named enums

    def vidx(self, enum, variant):
        vs = self.L.enums.get(enum)
        if vs is None or variant not in vs:
            raise Unsupported(f'enum {enum}::{variant} not found in sources')
        return vs.index(variant)

    def sym_enum(self, enum, discr, cases):
        """cases: {variant name: payload tuple}"""
        return SymEnum(discr, {self.vidx(enum, k): tuple(v) for k, v in cases.items()})

    def newtype(self, name, v):
        return Agg(None, [v], name)

    def cell(self, v):
        return Ptr(self.st.alloc(v), ())

    def boxed(self, v):
        """Box<T> as rustc lays it out in MIR: Box { 0: Unique { pointer: NonNull(ptr) }, 1: alloc }"""
        p = self.cell(v)
        return Agg(None, [Agg(None, [p, Agg(None, ())]), Agg(None, ())], 'box')

    def string(self, s):
        return StrV(s)

    def vec(self, items):
        return VecV(items)

    def slice_of(self, items):
        c = self.st.alloc(VecV(items))
        return Ptr(c, (), ('slice', 0, len(items)))

    def btreemap(self, pairs):
        cells = tuple((k, self.st.alloc(v)) for k, v in pairs)
        return Opaque('map', cells)


def model_int(m, x):
    v = m.eval(x, model_completion=True)
    return v.as_long()
