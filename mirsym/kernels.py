"""Engine-M kernels: each function explores one piece of graphql-client's decision logic
symbolically and discharges the obligations a property puts on it.

Conventions: `R` is an mcheck.MRun; every kernel returns a list of *candidate
violations* (dicts with a concrete input) which the calling check replays natively
before anything is reported.
"""
import itertools
import z3

import vm as V
from vm import Agg, SymEnum, Ptr, StrV, VecV, Opaque, Tokens, bv, none, some, mk_bool, simp

REQ, LIST = 0, 1   # positions in `enum GraphqlTypeQualifier { Required, List }`; checked against the source below


def qual_indices(R):
    vs = R.L.enums.get('GraphqlTypeQualifier')
    if vs is None or sorted(vs) != ['List', 'Required']:
        raise V.Unsupported(f'GraphqlTypeQualifier variants changed: {vs}')
    return vs.index('Required'), vs.index('List')


# ---------------------------------------------------------------- token helpers

def type_chain(tokens):
    """tokens of a generic type chain `A<B<C>>` -> ['A','B','C'] or None if not a chain"""
    items = []
    for t in tokens.items:
        if t[0] == 'punct' and t[1] == '>>':
            items += [('punct', '>'), ('punct', '>')]
        else:
            items.append(t)
    names = []
    i = 0
    depth = 0
    expect_ident = True
    while i < len(items):
        t = items[i]
        if expect_ident:
            if t[0] != 'ident':
                return None
            names.append(t[1])
            expect_ident = False
        elif t == ('punct', '<'):
            depth += 1
            expect_ident = True
        elif t == ('punct', '>'):
            depth -= 1
            if depth < 0:
                return None
        else:
            return None
        i += 1
    if depth != 0 or expect_ident:
        return None
    # closers must all come after the last ident
    first_close = next((k for k, t in enumerate(items) if t == ('punct', '>')), len(items))
    if any(t[0] == 'ident' for t in items[first_close:]):
        return None
    return names


def ref_nesting(quals_z3, req, lst):
    """reference rule as a z3 String over symbolic qualifiers (outer -> inner):
    'O' = Option, 'V' = Vec, 'T' = the named type; also returns `adjacent Required` predicate"""
    pieces = []
    pending = z3.BoolVal(False)
    adj = z3.BoolVal(False)
    w = quals_z3[0].size() if quals_z3 else 8
    for q in quals_z3:
        is_l = q == bv(lst, w)
        pieces.append(z3.If(is_l, z3.If(pending, z3.StringVal('V'), z3.StringVal('OV')), z3.StringVal('')))
        adj = z3.Or(adj, z3.And(z3.Not(is_l), pending))
        pending = z3.Not(is_l)
    pieces.append(z3.If(pending, z3.StringVal('T'), z3.StringVal('OT')))
    s = pieces[0] if len(pieces) == 1 else z3.Concat(*pieces)
    return s, adj


def ref_nesting_concrete(ql):
    """ql: list of 'R' / 'L' outer->inner -> rust type string around 'T'"""
    out, pending = [], False
    for q in ql:
        if q == 'L':
            out.append('Vec' if pending else 'Option<Vec')
            pending = False
        else:
            pending = True
    out.append('T' if pending else 'Option<T')
    s = '<'.join(out)
    return s + '>' * s.count('<')


def chain_code(names, base):
    code = ''
    for n in names:
        if n == 'Option':
            code += 'O'
        elif n == 'Vec':
            code += 'V'
        elif n == 'Box':
            code += 'B'
        elif n == base:
            code += 'T'
        else:
            return None
    return code


def graphql_type_expr(ql, name='Int'):
    t = name
    for q in reversed(ql):
        t = t + '!' if q == 'R' else f'[{t}]'
    return t


# ---------------------------------------------------------------- C13: decorate_type

def k_decorate_type(R, maxlen):
    req, lst = qual_indices(R)
    f = R.fn('decorate_type')
    cands = []
    for n in range(0, maxlen + 1):
        qs = [z3.BitVec(f'dq{n}_{i}', 8) for i in range(n)]

        def setup(st, B, n=n, qs=qs):
            for q in qs:
                st.pc.append(z3.ULT(q, 2))
            sl = B.slice_of([SymEnum(q, {0: (), 1: ()}) for q in qs])
            ident = B.cell(Opaque('ident', 'T'))
            R.vm.push_call(st, f, [ident, sl], None, None)
        outs, _ = R.explore('decorate_type', setup)
        ref, adj = ref_nesting(qs, req, lst) if qs else (z3.StringVal('OT'), z3.BoolVal(False))
        for o in outs:
            if o.kind == 'return':
                names = type_chain(o.value) if isinstance(o.value, Tokens) else None
                code = chain_code(names, 'T') if names else None
                if code is None:
                    claim = z3.BoolVal(False)
                else:
                    claim = z3.And(ref == z3.StringVal(code), z3.Not(adj))
                m = R.prove('decorate_type', o, claim, f'len {n}')
                R.sample({'kernel': 'decorate_type', 'len': n, 'tokens': code, 'path_condition_size': len(o.state.pc)}) if n >= 2 else None
                if m is not None:
                    ql = ['R' if m.eval(q, model_completion=True).as_long() == req else 'L' for q in qs]
                    cands.append(dict(kernel='decorate_type', qualifiers=ql, got=code, tokens=repr(o.value)))
            elif o.kind == 'panic':
                ok_msg = 'double required' in o.msg
                m = R.prove('decorate_type', o, adj if ok_msg else z3.BoolVal(False), f'panic len {n}')
                if m is not None:
                    ql = ['R' if m.eval(q, model_completion=True).as_long() == req else 'L' for q in qs]
                    cands.append(dict(kernel='decorate_type', qualifiers=ql, got=f'panic: {o.msg}'))
            elif o.kind != 'limit':
                R.inconclusive.append(f'decorate_type: path ended with {o.kind}: {o.msg}')
    return cands


# ---------------------------------------------------------------- C13 / C07: qualifier extraction, SDL vs JSON

def sym_shape(depth, prefix):
    """k_i in {0 named, 1 list, 2 non-null}; level `depth` is forced to be named"""
    ks = [z3.BitVec(f'{prefix}k{i}', 8) for i in range(depth)]
    return ks


def shape_claim(ks, result_quals, req, lst):
    """the Vec of qualifiers (concrete length on a path) equals the wrappers in front of the first named level"""
    n = len(result_quals)
    cs = []
    for i in range(n):
        if i >= len(ks):
            return z3.BoolVal(False)
        cs.append(ks[i] != 0)
        q = result_quals[i]
        qd = q.discr if isinstance(q, SymEnum) else bv(q.variant, 8)
        cs.append(z3.If(ks[i] == 1, qd == bv(lst, qd.size()), qd == bv(req, qd.size())))
    if n < len(ks):
        cs.append(ks[n] == 0)
    return z3.And(*cs) if cs else z3.BoolVal(True)


def shape_of_model(m, ks):
    out = []
    for k in ks:
        v = m.eval(k, model_completion=True).as_long()
        if v == 0:
            break
        out.append('L' if v == 1 else 'R')
    return out


def k_resolve_field_type(R, depth):
    """schema::resolve_field_type over every SDL type expression with <= depth wrappers"""
    req, lst = qual_indices(R)
    f = R.fn('schema::resolve_field_type')
    ks = sym_shape(depth, 's')
    cands = []

    def setup(st, B):
        for k in ks:
            st.pc.append(z3.ULT(k, 3))
        for a, b in zip(ks, ks[1:]):
            st.pc.append(z3.Not(z3.And(a == 2, b == 2)))   # `T!!` is not a GraphQL type expression
        node = B.variant('Type', 'NamedType', StrV('T'))
        for i in reversed(range(depth)):
            child = node
            node = B.sym_enum('Type', ks[i], {'NamedType': (StrV('T'),), 'ListType': (B.boxed(child),), 'NonNullType': (B.boxed(child),)})
        schema = mini_schema(B)
        R.vm.push_call(st, f, [B.cell(schema), B.cell(node)], None, None)
    outs, _ = R.explore('resolve_field_type', setup)
    for o in outs:
        if o.kind == 'return':
            quals = o.value.fields[R.L.structs['StoredFieldType'].index('qualifiers')]
            claim = shape_claim(ks, list(quals.items), req, lst)
            m = R.prove('resolve_field_type', o, claim, 'sdl type expr')
            R.sample({'kernel': 'resolve_field_type', 'qualifiers_len': len(quals.items)})
            if m is not None:
                cands.append(dict(kernel='resolve_field_type', qualifiers=shape_of_model(m, ks), got=[q.variant if isinstance(q, Agg) else '?' for q in quals.items]))
        elif o.kind == 'panic':
            m = R.prove('resolve_field_type', o, z3.BoolVal(False), 'panic')
            if m is not None:
                cands.append(dict(kernel='resolve_field_type', qualifiers=shape_of_model(m, ks), got=f'panic: {o.msg}'))
        elif o.kind != 'limit':
            R.inconclusive.append(f'resolve_field_type: {o.kind}: {o.msg}')
    return cands


def mini_schema(B):
    """a Schema value whose `names` maps "T" to a scalar; the other tables are empty"""
    tid = B.variant('TypeId', 'Scalar', B.newtype('ScalarId', bv(0, 64)))
    return B.struct('Schema', stored_objects=VecV(()), stored_fields=VecV(()), stored_interfaces=VecV(()), stored_unions=VecV(()),
                    stored_scalars=VecV(()), stored_enums=VecV(()), stored_inputs=VecV(()), names=B.btreemap([(StrV('T'), tid)]),
                    query_type=none(), mutation_type=none(), subscription_type=none())


def k_from_json_type(R, depth):
    """json_conversion::from_json_type_inner over every introspection TypeRef chain with <= depth wrappers"""
    req, lst = qual_indices(R)
    f = R.fn('from_json_type_inner')
    ks = sym_shape(depth, 'j')
    nks = [z3.BitVec(f'jn{i}', 8) for i in range(depth + 1)]
    cands = []
    kinds = R.L.enums['__TypeKind']
    i_list, i_nn = kinds.index('LIST'), kinds.index('NON_NULL')

    def setup(st, B):
        for k in ks:
            st.pc.append(z3.ULT(k, 3))
        for a, b in zip(ks, ks[1:]):
            st.pc.append(z3.Not(z3.And(a == 2, b == 2)))
        for nk in nks:
            st.pc.append(z3.And(z3.ULT(nk, len(kinds) - 1), nk != i_list, nk != i_nn))

        def typeref(level):
            if level == depth:
                kind = some(SymEnum(nks[level], {i: () for i in range(len(kinds) - 1)}))
                return B.struct('TypeRef', kind=kind, name=some(StrV('T')), of_type=none())
            k = ks[level]
            child = typeref(level + 1)
            kd = z3.If(k == 1, bv(i_list, 8), z3.If(k == 2, bv(i_nn, 8), nks[level]))
            kind = some(SymEnum(kd, {i: () for i in range(len(kinds) - 1)}))
            name = SymEnum(z3.If(k == 0, bv(1, 8), bv(0, 8)), {0: (), 1: (StrV('T'),)})
            of = SymEnum(z3.If(k == 0, bv(0, 8), bv(1, 8)), {0: (), 1: (B.boxed(child),)})
            return B.struct('TypeRef', kind=kind, name=name, of_type=of)
        schema = mini_schema(B)
        R.vm.push_call(st, f, [B.cell(schema), B.cell(typeref(0))], None, None)
    outs, _ = R.explore('from_json_type_inner', setup)
    for o in outs:
        if o.kind == 'return':
            quals = o.value.fields[R.L.structs['StoredFieldType'].index('qualifiers')]
            claim = shape_claim(ks, list(quals.items), req, lst)
            m = R.prove('from_json_type_inner', o, claim, 'json type ref')
            R.sample({'kernel': 'from_json_type_inner', 'qualifiers_len': len(quals.items)})
            if m is not None:
                cands.append(dict(kernel='from_json_type_inner', qualifiers=shape_of_model(m, ks), got=[q.variant if isinstance(q, Agg) else '?' for q in quals.items]))
        elif o.kind == 'panic':
            m = R.prove('from_json_type_inner', o, z3.BoolVal(False), 'panic')
            if m is not None:
                cands.append(dict(kernel='from_json_type_inner', qualifiers=shape_of_model(m, ks), got=f'panic: {o.msg}'))
        elif o.kind != 'limit':
            R.inconclusive.append(f'from_json_type_inner: {o.kind}: {o.msg}')
    return cands


# ---------------------------------------------------------------- token structure helpers

BRACKET = 2   # proc_macro2::Delimiter { Parenthesis, Brace, Bracket, None }
PAREN = 0


def split_attrs(tokens):
    """leading `#[...]` attributes of a token sequence -> (list of attribute token tuples, rest items)"""
    items = list(tokens.items)
    attrs = []
    i = 0
    while i + 1 < len(items) and items[i] == ('punct', '#') and items[i + 1][0] == 'group' and items[i + 1][1] == BRACKET:
        attrs.append(items[i + 1][2].items)
        i += 2
    return attrs, items[i:]


def attr_name(a):
    return a[0][1] if a and a[0][0] == 'ident' else None


def serde_args(a):
    """for `serde(...)` attributes: the inner token items"""
    if attr_name(a) == 'serde' and len(a) == 2 and a[1][0] == 'group' and a[1][1] == PAREN:
        return a[1][2].items
    return None


def zstr(x):
    return z3.StringVal(x) if isinstance(x, str) else x


def serde_kv(items):
    """`a, b = "x", c = lit` -> {'a': None, 'b': ('src', '"x"'), 'c': ('lit', ..)} ; None if malformed"""
    out = {}
    cur = []
    parts = []
    for t in items:
        if t == ('punct', ','):
            parts.append(cur)
            cur = []
        else:
            cur.append(t)
    if cur:
        parts.append(cur)
    for p in parts:
        if not p or p[0][0] != 'ident':
            return None
        if len(p) == 1:
            out[p[0][1]] = None
        elif len(p) == 3 and p[1] == ('punct', '='):
            out[p[0][1]] = p[2]
        else:
            return None
    return out


# ---------------------------------------------------------------- ExpandedField::render  (C14, C16, C11, C13 site)

# signature (as a nesting code) of the coercion helpers in graphql_client::serde_with; '*' = generic.
# The check reads the real signatures from the MIR of graphql_client (see checks/C16.py) and overrides this table.
ID_HELPERS = {
    '"graphql_client::serde_with::deserialize_id"': 'T',
    '"graphql_client::serde_with::deserialize_option_id"': 'OT',
}

def k_render_field(R, maxq, props):
    """`props`: subset of {'C14','C16','C11','C13'} - which obligations to discharge.
    Returns candidates; each carries the concrete field description from the model."""
    req, lst = qual_indices(R)
    f = R.fn('render', contains='selection.rs:394') if False else None
    # the impl block of ExpandedField: find `render` whose first parameter is &ExpandedField
    cands_fn = [fn for n, fn in R.L.funcs.items() if n.endswith('::render') and fn.params and 'ExpandedField' in fn.params[0][1]]
    if len(cands_fn) != 1:
        raise V.Unsupported('ExpandedField::render not found')
    f = cands_fn[0]
    strategies = R.L.enums['DeprecationStrategy']
    out = []
    for n in range(0, maxq + 1):
        qs = [z3.BitVec(f'rq{n}_{i}', 8) for i in range(n)]
        gname, rname, ftype, reason = z3.String(f'gname{n}'), z3.String(f'rname{n}'), z3.String(f'ftype{n}'), z3.String(f'reason{n}')
        has_g, dep1, dep2 = z3.BitVec(f'hasg{n}', 8), z3.BitVec(f'dep1_{n}', 8), z3.BitVec(f'dep2_{n}', 8)
        flatten, boxed, skip = z3.Bool(f'flatten{n}'), z3.Bool(f'boxed{n}'), z3.Bool(f'skip{n}')
        strat = z3.BitVec(f'strat{n}', 8)
        has_strat = z3.BitVec(f'hasstrat{n}', 8)
        # the trait lists are options "affecting only traits": unconstrained here, no attribute may depend on them (C09)
        # (a symbolic choice among spellings rather than a free string: the option is split at commas and trimmed)
        rsel, vsel = z3.BitVec(f'rdsel{n}', 8), z3.BitVec(f'vdsel{n}', 8)
        spell = lambda sel: z3.If(sel == 0, z3.StringVal('Serialize'), z3.If(sel == 1, z3.StringVal('serde::Serialize'), z3.If(sel == 2, z3.StringVal('Debug, PartialEq'), z3.StringVal('Clone'))))
        rderives, vderives = spell(rsel), spell(vsel)
        # the serde path option: a symbolic choice among spellings of the same crate
        psel = z3.BitVec(f'serdesel{n}', 8)
        serde_spelling = z3.If(psel == 0, z3.StringVal(':: serde'), z3.If(psel == 1, z3.StringVal('serde'), z3.StringVal('graphql_client :: _private :: serde')))
        has_rd, has_vd = z3.BitVec(f'hasrd{n}', 8), z3.BitVec(f'hasvd{n}', 8)

        def setup(st, B, qs=qs, n=n):
            for q in qs:
                st.pc.append(z3.ULT(q, 2))
            for a, b in zip(qs, qs[1:]):
                st.pc.append(z3.Not(z3.And(a == req, b == req)))
            for x in (has_g, dep1, dep2, has_strat, has_rd, has_vd):
                st.pc.append(z3.ULT(x, 2))
            st.pc += [z3.ULT(rsel, 4), z3.ULT(vsel, 4), z3.ULT(psel, 3)]
            st.pc.append(z3.ULT(strat, len(strategies)))
            # representation invariant of the ExpandedField values calculate_selection builds (3 sites):
            # spread fields are flattened, keyless, `[Required]`, never deprecated and named after a fragment;
            # only they can be boxed; every other field has a key.
            if len(qs) == 1:
                st.pc.append(z3.Implies(flatten, z3.And(has_g == 0, qs[0] == req, dep1 == 0, ftype != z3.StringVal('ID'))))
            else:
                st.pc.append(z3.Not(flatten))
            st.pc.append(z3.Implies(z3.Not(flatten), has_g == 1))
            st.pc.append(z3.Implies(boxed, flatten))
            quals = B.slice_of([SymEnum(q, {0: (), 1: ()}) for q in qs])
            field = B.struct('ExpandedField',
                             graphql_name=SymEnum(has_g, {0: (), 1: (StrV(gname),)}),
                             rust_name=Agg(0, [StrV(rname)], 'Cow'),
                             field_type=Agg(0, [StrV(ftype)], 'Cow'),
                             field_type_qualifiers=quals,
                             struct_id=B.newtype('ResponseTypeId', bv(0, 32)),
                             flatten=flatten,
                             deprecation=SymEnum(dep1, {0: (), 1: (SymEnum(dep2, {0: (), 1: (StrV(reason),)}),)}),
                             boxed=boxed)
            opts = options_value(B, skip_serializing_none=skip, serde_path=Opaque('syn::Path', serde_spelling if 'C09' in props else 'serde'),
                                 response_derives=SymEnum(has_rd, {0: (), 1: (StrV(rderives),)}), variables_derives=SymEnum(has_vd, {0: (), 1: (StrV(vderives),)}),
                                 deprecation_strategy=SymEnum(has_strat, {0: (), 1: (SymEnum(strat, {i: () for i in range(len(strategies))}),)}))
            R.vm.push_call(st, f, [B.cell(field), B.cell(opts)], None, None)
        outs, _ = R.explore('ExpandedField::render', setup)
        i_allow, i_deny, i_warn = strategies.index('Allow'), strategies.index('Deny'), strategies.index('Warn')
        eff = z3.If(has_strat == 1, strat, bv(i_warn, 8))      # documented default: warn
        deprecated = dep1 == 1
        ref, _adj = ref_nesting(qs, req, lst) if qs else (z3.StringVal('OT'), None)
        for o in outs:
            if o.kind == 'panic' or o.kind == 'diverge':
                m = R.prove('render', o, z3.BoolVal(False), 'panic')
                if m is not None:
                    out.append(dict(kernel='render', prop='C17', what=f'{o.kind}: {o.msg}', model=field_model(m, locals())))
                continue
            if o.kind != 'return':
                continue
            v = o.value
            claims = {}
            if isinstance(v, SymEnum):
                R.inconclusive.append('render returned a symbolic Option')
                continue
            is_none = v.variant == 0
            # C14 (a): omitted exactly when deprecated and deny
            claims['C14:omitted-iff-deny'] = (z3.And(deprecated, eff == i_deny) if is_none else z3.Not(z3.And(deprecated, eff == i_deny)))
            if not is_none:
                toks = v.fields[0]
                attrs, rest = split_attrs(toks)
                names = [attr_name(a) for a in attrs]
                # field declaration:  pub <ident> : <type>
                ok_decl = len(rest) >= 4 and rest[0] == ('ident', 'pub') and rest[1][0] == 'ident' and rest[2] == ('punct', ':')
                ident = rest[1][1] if ok_decl else None
                ty_names = type_chain(Tokens(rest[3:])) if ok_decl else None
                # --- C14 (b): #[deprecated] iff deprecated and warn; note carries the reason verbatim
                dep_attrs = [a for a in attrs if attr_name(a) == 'deprecated']
                has_dep = len(dep_attrs) > 0
                claims['C14:attr-iff-warn'] = (z3.And(deprecated, eff == i_warn) if has_dep else z3.Not(z3.And(deprecated, eff == i_warn)))
                if has_dep:
                    a = dep_attrs[0]
                    if len(a) == 1:
                        claims['C14:note'] = dep2 == 0
                    elif len(a) == 2 and a[1][0] == 'group' and a[1][1] == PAREN:
                        inner = a[1][2].items
                        good = len(inner) == 3 and inner[0] == ('ident', 'note') and inner[1] == ('punct', '=') and inner[2][0] == 'lit'
                        claims['C14:note'] = z3.And(dep2 == 1, zstr(inner[2][1]) == reason) if good else z3.BoolVal(False)
                    else:
                        claims['C14:note'] = z3.BoolVal(False)
                    claims['C14:single'] = z3.BoolVal(len(dep_attrs) == 1)
                # --- serde attributes
                sargs = [serde_args(a) for a in attrs if attr_name(a) == 'serde']
                if any(x is None for x in sargs):
                    claims['attrs:wellformed'] = z3.BoolVal(False)
                    sargs = [x for x in sargs if x is not None]
                kvs = [serde_kv(x) for x in sargs]
                if any(x is None for x in kvs):
                    claims['attrs:wellformed'] = z3.BoolVal(False)
                    kvs = [x for x in kvs if x is not None]
                merged = {}
                dup = False
                for kv in kvs:
                    for k_, v_ in kv.items():
                        dup = dup or k_ in merged
                        merged[k_] = v_
                claims['attrs:no-duplicate-keys'] = z3.BoolVal(not dup)
                if 'C09' in props:
                    # re-serialization: the skip attribute follows the option and the outermost qualifier only - in particular it
                    # is the same whatever the trait lists say
                    want_skip = z3.And(skip, qs[0] != req) if qs else z3.BoolVal(False)
                    claims['C09:skip-attribute-independent-of-trait-options'] = want_skip if 'skip_serializing_if' in merged else z3.Not(want_skip)
                    # the ID coercion is attached to ID fields whatever the serde path option spells
                    claims['C09:id-coercion-independent-of-serde-path'] = (ftype == z3.StringVal('ID')) if 'deserialize_with' in merged else (ftype != z3.StringVal('ID'))
                known = {'rename', 'deserialize_with', 'flatten', 'skip_serializing_if', 'default'}
                claims['attrs:known-serde-keys'] = z3.BoolVal(set(merged) <= known)
                renames = [merged['rename']] if 'rename' in merged else []
                dwith = [merged['deserialize_with']] if 'deserialize_with' in merged else []
                flat = ['flatten'] if 'flatten' in merged else []
                others = [n_ for n_ in names if n_ not in ('serde', 'deprecated')]
                claims['attrs:known'] = z3.BoolVal(not others)
                # --- C11: wire key is the GraphQL name
                claims['C11:ident'] = (zstr(ident) == rname) if ident is not None else z3.BoolVal(False)
                if renames:
                    r = renames[0]
                    good = r is not None and r[0] == 'lit'
                    claims['C11:rename'] = z3.And(has_g == 1, zstr(r[1]) == gname) if good else z3.BoolVal(False)
                else:
                    # without rename the wire key is the Rust identifier: only right when it equals the GraphQL name
                    # (or the field has no key of its own: flattened fragment fields)
                    claims['C11:rename'] = z3.Or(has_g == 0, gname == rname)
                claims['flatten'] = flatten if flat else z3.Not(flatten)
                # --- C13 site: the type is the decorated field type, boxed iff asked
                code = None
                if ty_names is not None:
                    code = ''
                    for nm in ty_names:
                        if isinstance(nm, str) and nm in ('Option', 'Vec', 'Box'):
                            code += {'Option': 'O', 'Vec': 'V', 'Box': 'B'}[nm]
                        else:
                            code += 'T'
                if code is None:
                    claims['C13:type'] = z3.BoolVal(False)
                else:
                    want = z3.If(boxed, z3.Concat(z3.StringVal('B'), ref), ref)
                    base_ok = zstr(ty_names[-1]) == ftype if not isinstance(ty_names[-1], str) or ty_names[-1] not in ('Option', 'Vec', 'Box') else z3.BoolVal(False)
                    claims['C13:type'] = z3.And(want == z3.StringVal(code), base_ok)
                # --- C16: coercion attached to exactly the ID-typed fields, in a form that type-checks
                is_id = ftype == z3.StringVal('ID')
                if dwith:
                    d = dwith[0]
                    good = d is not None and d[0] == 'src'
                    helper = d[1] if good else ''
                    if d is not None and d[0] == 'lit' and isinstance(d[1], str):
                        # the path given as an interpolated string literal instead of literal source text
                        helper = '"' + d[1] + '"'
                    claims['C16:only-id'] = is_id
                    sig = ID_HELPERS.get(helper)
                    if sig is None:
                        claims['C16:helper-known'] = z3.BoolVal(False)
                    elif sig == '*':
                        # generic over every Option / Vec nesting of the ID alias
                        claims['C16:typechecks'] = z3.BoolVal(code is not None and set(code[:-1]) <= set('OV') and code.endswith('T'))
                    else:
                        # fn(D) -> Result<sig, _>: the field type must be exactly that
                        claims['C16:typechecks'] = z3.BoolVal(code == sig)
                    # a field with `deserialize_with` is *required* unless it also says `default`
                    # (serde: "missing field"); a nullable ID must accept absence
                    if code is not None and code.startswith('O'):
                        claims['C16:absent-is-none'] = z3.BoolVal('default' in merged)
                else:
                    claims['C16:all-ids'] = z3.Not(is_id)
                # `default` turns a missing key into a default value: only a nullable field may have it
                if 'default' in merged:
                    claims['C03:default-only-on-nullable'] = z3.BoolVal(code is not None and (code.startswith('O') or code.startswith('BO')))
            env = dict(qs=qs, gname=gname, rname=rname, ftype=ftype, reason=reason, has_g=has_g, dep1=dep1, dep2=dep2, flatten=flatten, boxed=boxed,
                       skip=skip, strat=strat, has_strat=has_strat, req=req, strategies=strategies, rderives=rderives, has_rd=has_rd, serde_spelling=serde_spelling)
            by_prop = {}
            for name, claim in claims.items():
                pfx = name.split(':')[0]
                p = pfx if pfx.startswith('C') else 'C01'
                if p in props:
                    by_prop.setdefault(p, []).append((name, claim))
            for p, cl in by_prop.items():
                m = R.prove('render', o, z3.And(*[c for _, c in cl]), p)
                if m is not None:
                    failing = [nm for nm, c in cl if not z3.is_true(m.eval(c, model_completion=True))]
                    out.append(dict(kernel='render', prop=p, what=failing[0] if failing else p, model=field_model(m, env), tokens=repr(v)[:600]))
            R.sample(dict(kernel='render', qualifiers=n, returned='None' if is_none else 'Some', claims=sorted(claims)))
    return out


def field_model(m, env):
    def ev(x):
        return m.eval(x, model_completion=True)
    def s(x):
        v = ev(x)
        return v.as_string() if z3.is_string_value(v) else str(v)
    req = env['req']
    d = dict(qualifiers=['R' if ev(q).as_long() == req else 'L' for q in env['qs']],
             graphql_name=s(env['gname']) if ev(env['has_g']).as_long() == 1 else None,
             rust_name=s(env['rname']), field_type=s(env['ftype']),
             deprecated=ev(env['dep1']).as_long() == 1,
             reason=s(env['reason']) if ev(env['dep2']).as_long() == 1 else None,
             flatten=z3.is_true(ev(env['flatten'])), boxed=z3.is_true(ev(env['boxed'])), skip_serializing_none=z3.is_true(ev(env['skip'])),
             strategy=(env['strategies'][ev(env['strat']).as_long()] if ev(env['has_strat']).as_long() == 1 else None))
    if 'rderives' in env:
        d['response_derives'] = s(env['rderives']) if ev(env['has_rd']).as_long() == 1 else None
    if 'serde_spelling' in env:
        d['serde_path'] = s(env['serde_spelling']).replace(' ', '')
    return d


def options_value(B, **over):
    """a GraphQLClientCodegenOptions value; members a kernel must not look at are opaque"""
    names = B.L.structs.get('GraphQLClientCodegenOptions')
    if names is None:
        raise V.Unsupported('GraphQLClientCodegenOptions not found')
    dflt = dict(mode=B.variant('CodegenMode', 'Cli'), operation_name=none(), struct_name=none(), struct_ident=none(), variables_derives=none(),
                response_derives=none(), deprecation_strategy=none(), module_visibility=none(), query_file=none(), schema_file=none(),
                normalization=B.variant('Normalization', 'None'), custom_scalars_module=none(), extern_enums=VecV(()),
                fragments_other_variant=mk_bool(False), skip_serializing_none=mk_bool(False), serde_path=Opaque('syn::Path', 'serde'))
    dflt.update(over)
    return B.struct('GraphQLClientCodegenOptions', **dflt)


# ---------------------------------------------------------------- C11: keyword_replace

# strict + reserved keywords of editions 2015-2021 (The Rust Reference, "Keywords"); harness-side list
RUST_KEYWORDS_REF = ['as', 'break', 'const', 'continue', 'crate', 'else', 'enum', 'extern', 'false', 'fn', 'for', 'if', 'impl', 'in', 'let',
                     'loop', 'match', 'mod', 'move', 'mut', 'pub', 'ref', 'return', 'self', 'Self', 'static', 'struct', 'super', 'trait', 'true',
                     'type', 'unsafe', 'use', 'where', 'while', 'async', 'await', 'dyn', 'abstract', 'become', 'box', 'do', 'final', 'macro',
                     'override', 'priv', 'typeof', 'unsized', 'virtual', 'yield', 'try']


def cow_str(vm, st, v):
    import summaries
    return summaries.as_str(vm, st, v)


def k_keyword_replace(R):
    """(a) every reference keyword is escaped (concrete inputs through the real binary search);
    (b) for an arbitrary string the result is s or s + "_", never a table member, and s + "_" only for members"""
    f = R.fn('keyword_replace')
    out = []
    # (a)
    for kw in RUST_KEYWORDS_REF + ['fora', 'Type', 'selfish', '', '_', 'r#type', 'zzz', 'A']:
        def setup(st, B, kw=kw):
            R.vm.push_call(st, f, [StrV(kw)], None, None)
        outs, _ = R.explore('keyword_replace(concrete)', setup)
        for o in outs:
            if o.kind != 'return':
                out.append(dict(kernel='keyword_replace', prop='C11', what=f'{o.kind}: {o.msg}', input=kw))
                continue
            got = cow_str(R.vm, o.state, o.value).s
            want = kw + '_' if kw in RUST_KEYWORDS_REF else kw
            R.obligations += 1
            if got == want:
                R.discharged += 1
            else:
                out.append(dict(kernel='keyword_replace', prop='C11', what='keyword not escaped' if kw in RUST_KEYWORDS_REF else 'non-keyword changed', input=kw, got=got, want=want))
    table = getattr(R.vm, 'last_table', None)
    if getattr(R.vm, 'table_unsorted', None):
        R.sample(dict(kernel='keyword_replace', note='keyword table is not sorted; binary search emulated on the real table'))
    # (b)
    s = z3.String('kw_in')

    def setup2(st, B):
        R.vm.push_call(st, f, [StrV(s)], None, None)
    outs, _ = R.explore('keyword_replace(symbolic)', setup2)
    for o in outs:
        if o.kind != 'return':
            m = R.prove('keyword_replace', o, z3.BoolVal(False), 'no panic')
            if m is not None:
                out.append(dict(kernel='keyword_replace', prop='C17', what=f'{o.kind}: {o.msg}', input=m.eval(s, model_completion=True).as_string()))
            continue
        res = cow_str(R.vm, o.state, o.value).z()
        member = z3.Or(*[s == z3.StringVal(k) for k in RUST_KEYWORDS_REF])
        esc = z3.Concat(s, z3.StringVal('_'))
        # escaping more words than the reference list (e.g. the weak keyword `union`) is harmless
        claim = z3.And(z3.Or(res == s, res == esc), z3.Implies(member, res == esc),
                       z3.Not(z3.Or(*[res == z3.StringVal(k) for k in RUST_KEYWORDS_REF])))
        m = R.prove('keyword_replace', o, claim, 'escape rule')
        if m is not None:
            out.append(dict(kernel='keyword_replace', prop='C11', what='escape rule', input=m.eval(s, model_completion=True).as_string(),
                            got=m.eval(res, model_completion=True).as_string()))
    R.sample(dict(kernel='keyword_replace', table_size=len(table) if table else None, reference_keywords=len(RUST_KEYWORDS_REF)))
    return out


# ---------------------------------------------------------------- name positions: variables, input fields, @oneOf variants (C11, C04, C13 sites)

def SNAKE_OF(R, x):
    import summaries
    r = summaries.heck_result(R.vm, 'to_snake_case', x)
    return z3.StringVal(r) if isinstance(r, str) else r


def CAMEL_OF(R, x):
    import summaries
    r = summaries.heck_result(R.vm, 'to_upper_camel_case', x)
    return z3.StringVal(r) if isinstance(r, str) else r


def schema_with(B, scalars=(), inputs=()):
    """Schema value with the given scalar names and input types [(name, [(field, TypeId, quals)], one_of)]"""
    sc = VecV([B.struct('StoredScalar', name=StrV(n)) for n in scalars])
    ins = VecV([B.struct('StoredInputType', name=StrV(n), fields=VecV([Agg(None, [StrV(fn), B.struct('StoredInputFieldType', id=tid, qualifiers=VecV(q))]) for fn, tid, q in fs]),
                         is_one_of=mk_bool(oo)) for n, fs, oo in inputs])
    return B.struct('Schema', stored_objects=VecV(()), stored_fields=VecV(()), stored_interfaces=VecV(()), stored_unions=VecV(()),
                    stored_scalars=sc, stored_enums=VecV(()), stored_inputs=ins, names=B.btreemap([]),
                    query_type=none(), mutation_type=none(), subscription_type=none())


def empty_query(B):
    return B.struct('Query', fragments=VecV(()), operations=VecV(()), selection_parent_idx=B.btreemap([]), selections=VecV(()), variables=VecV(()))


def wire_name_claims(attrs, ident, gql_name, rust_name_expected_any):
    """claims shared by the three sites: the (serde) wire name of the member is the GraphQL name.
    Returns dict name -> z3 claim; `ident` is the emitted identifier (python str or z3 string)."""
    claims = {}
    merged = {}
    ok = True
    for a in attrs:
        if attr_name(a) == 'serde':
            kv = serde_kv(serde_args(a) or ())
            if kv is None:
                ok = False
            else:
                merged.update(kv)
    claims['attrs:wellformed'] = z3.BoolVal(ok)
    if 'rename' in merged:
        r = merged['rename']
        claims['C11:wire-name'] = zstr(r[1]) == gql_name if (r is not None and r[0] == 'lit') else z3.BoolVal(False)
    else:
        claims['C11:wire-name'] = zstr(ident) == gql_name
    return claims, merged


def k_variable_field(R, maxq):
    """codegen::generate_variable_struct_field: rename / skip_serializing_if / type of a Variables member"""
    req, lst = qual_indices(R)
    f = R.fn('generate_variable_struct_field')
    out = []
    norms = R.L.enums['Normalization']
    for n in range(0, maxq + 1):
        qs = [z3.BitVec(f'vq{n}_{i}', 8) for i in range(n)]
        vname, tname = z3.String(f'vname{n}'), z3.String(f'tname{n}')
        skip = z3.Bool(f'vskip{n}')
        norm = z3.BitVec(f'vnorm{n}', 8)

        def setup(st, B, qs=qs):
            for q in qs:
                st.pc.append(z3.ULT(q, 2))
            for a, b in zip(qs, qs[1:]):
                st.pc.append(z3.Not(z3.And(a == req, b == req)))
            st.pc.append(z3.ULT(norm, len(norms)))
            tid = B.variant('TypeId', 'Scalar', B.newtype('ScalarId', bv(0, 64)))
            var = B.struct('ResolvedVariable', operation_id=B.newtype('OperationId', bv(0, 32)), name=StrV(vname), default=none(),
                           type=B.struct('StoredFieldType', id=tid, qualifiers=VecV([SymEnum(q, {0: (), 1: ()}) for q in qs])))
            schema = schema_with(B, scalars=[tname])
            bq = B.struct('BoundQuery', query=B.cell(empty_query(B)), schema=B.cell(schema))
            opts = options_value(B, skip_serializing_none=skip, normalization=SymEnum(norm, {i: () for i in range(len(norms))}))
            R.vm.push_call(st, f, [B.cell(var), B.cell(opts), B.cell(bq)], None, None)
        outs, _ = R.explore('generate_variable_struct_field', setup)
        ref, _adj = ref_nesting(qs, req, lst) if qs else (z3.StringVal('OT'), None)
        for o in outs:
            if o.kind != 'return':
                m = R.prove('variable_field', o, z3.BoolVal(False), 'no panic')
                if m is not None:
                    out.append(dict(kernel='variable_field', prop='C17', what=f'{o.kind}: {o.msg}', model=dict(name=m.eval(vname, model_completion=True).as_string())))
                continue
            attrs, rest = split_attrs(o.value)
            ok_decl = len(rest) >= 4 and rest[0] == ('ident', 'pub') and rest[1][0] == 'ident' and rest[2] == ('punct', ':')
            if not ok_decl:
                claims = {'C04:decl': z3.BoolVal(False)}
            else:
                ident = rest[1][1]
                claims, merged = wire_name_claims(attrs, ident, vname, None)
                # the identifier is the escaped snake_case name
                sn = SNAKE_OF(R, vname)
                claims['C11:ident'] = z3.Or(zstr(ident) == sn, zstr(ident) == z3.Concat(sn, z3.StringVal('_')))
                nullable = (qs[0] != req) if qs else z3.BoolVal(True)
                has_skip = 'skip_serializing_if' in merged
                claims['C04:skip-none'] = (z3.And(skip, nullable) if has_skip else z3.Not(z3.And(skip, nullable)))
                if has_skip:
                    v_ = merged['skip_serializing_if']
                    claims['C04:skip-fn'] = z3.BoolVal(v_ is not None and v_[0] == 'src' and v_[1] == '"Option::is_none"')
                claims['attrs:known-serde-keys'] = z3.BoolVal(set(merged) <= {'rename', 'skip_serializing_if'})
                names = type_chain(Tokens(rest[3:]))
                code = None
                if names:
                    code = ''.join({'Option': 'O', 'Vec': 'V'}.get(x, 'T') if isinstance(x, str) else 'T' for x in names)
                claims['C13:type'] = (ref == z3.StringVal(code)) if code else z3.BoolVal(False)
            env = dict(qs=qs, req=req, vname=vname, tname=tname, skip=skip, norm=norm, norms=norms)
            m = R.prove('variable_field', o, z3.And(*claims.values()), 'variable member')
            if m is not None:
                failing = [nm for nm, c in claims.items() if not z3.is_true(m.eval(c, model_completion=True))]
                out.append(dict(kernel='variable_field', prop=(failing[0].split(':')[0] if failing and failing[0][0] == 'C' else 'C04'), what=failing[0] if failing else '?',
                                model=dict(qualifiers=['R' if m.eval(q, model_completion=True).as_long() == req else 'L' for q in qs],
                                           name=m.eval(vname, model_completion=True).as_string(), snake=m.eval(SNAKE_OF(R, vname), model_completion=True).as_string(),
                                           skip_serializing_none=z3.is_true(m.eval(skip, model_completion=True)),
                                           normalization=norms[m.eval(norm, model_completion=True).as_long()]),
                                tokens=repr(o.value)[:500]))
        R.sample(dict(kernel='variable_field', qualifiers=n, paths=len(outs)))
    return out


# ---------------------------------------------------------------- C12 / C17: recursion of input types

def input_graph(B, st, N, K, qlen, prefix, req, lst, one_of=None):
    """N input types "I0".."I{N-1}", each with K fields; field (a, j) has a symbolic target
    (scalar or input t) and `qlen` symbolic qualifiers.  Returns (schema value, vars)"""
    tgt = [[z3.BitVec(f'{prefix}t{a}_{j}', 32) for j in range(K)] for a in range(N)]
    isin = [[z3.BitVec(f'{prefix}k{a}_{j}', 8) for j in range(K)] for a in range(N)]
    qs = [[[z3.BitVec(f'{prefix}q{a}_{j}_{i}', 8) for i in range(qlen)] for j in range(K)] for a in range(N)]
    i_scalar, i_input = B.vidx('TypeId', 'Scalar'), B.vidx('TypeId', 'Input')
    inputs = []
    for a in range(N):
        fields = []
        for j in range(K):
            st.pc.append(z3.ULT(tgt[a][j], N))
            st.pc.append(z3.Or(isin[a][j] == i_scalar, isin[a][j] == i_input))
            for q in qs[a][j]:
                st.pc.append(z3.ULT(q, 2))
            tid = SymEnum(isin[a][j], {i_scalar: (B.newtype('ScalarId', bv(0, 64)),), i_input: (B.newtype('InputId', tgt[a][j]),)})
            fields.append((f'f{j}', tid, [SymEnum(q, {0: (), 1: ()}) for q in qs[a][j]]))
        inputs.append((f'I{a}', fields, False))
    schema = schema_with(B, scalars=['S'], inputs=inputs)
    return schema, dict(tgt=tgt, isin=isin, qs=qs, i_input=i_input, lst=lst, N=N, K=K)


def graph_reach(g, through_lists=False):
    """R[a][b]: b reachable from a through >= 1 input edges (only non-list edges unless through_lists)"""
    N, K = g['N'], g['K']

    def edge(a, b):
        cs = []
        for j in range(K):
            direct = z3.And(g['isin'][a][j] == g['i_input'], g['tgt'][a][j] == b)
            if not through_lists:
                direct = z3.And(direct, *[q != g['lst'] for q in g['qs'][a][j]])
            cs.append(direct)
        return z3.Or(*cs)
    D = [[edge(a, b) for b in range(N)] for a in range(N)]
    Rm = D
    for _ in range(N):
        Rm = [[z3.Or(Rm[a][b], *[z3.And(Rm[a][c], D[c][b]) for c in range(N)]) for b in range(N)] for a in range(N)]
    return Rm


def graph_of_model(m, g):
    N, K = g['N'], g['K']
    out = []
    for a in range(N):
        fs = []
        for j in range(K):
            if m.eval(g['isin'][a][j], model_completion=True).as_long() == g['i_input']:
                t = f"I{m.eval(g['tgt'][a][j], model_completion=True).as_long()}"
            else:
                t = 'Int'
            ql = ['L' if m.eval(q, model_completion=True).as_long() == g['lst'] else 'R' for q in g['qs'][a][j]]
            fs.append((f'f{j}', graphql_type_expr(ql, t)))
        out.append((f'I{a}', fs))
    return out


def k_input_recursion(R, N, K, qlen):
    """`input_is_recursive_without_indirection(t)` for every type t of every input multigraph within the bound.
    The property: every cycle of non-list fields contains a field whose target type gets a Box, i.e. the graph of
    non-list edges into types for which the predicate is *false* is acyclic.  (The stricter "predicate(t) == t lies on a
    list-free cycle" is what the code aims at; deviations from it are counted but only the property is a finding.)"""
    req, lst = qual_indices(R)
    f = R.fn('input_is_recursive_without_indirection')
    out = []
    per_target = {}
    g = None
    strict_deviations = 0
    for target in range(N):
        holder = {}

        def setup(st, B, target=target):
            schema, g_ = input_graph(B, st, N, K, qlen, f'g{N}{K}{qlen}_', req, lst)     # same variables for every target
            holder['g'] = g_
            holder['npc'] = len(st.pc)
            R.vm.push_call(st, f, [B.newtype('InputId', bv(target, 32)), B.cell(schema)], None, None)
        outs, _ = R.explore(f'input_is_recursive_without_indirection(N={N},K={K})', setup)
        if not outs:
            return out
        g = holder['g']
        base = None
        reach = graph_reach(g)[target][target]
        false_paths = []
        for o in outs:
            if o.kind == 'return':
                if z3.is_false(simp(o.value)) or z3.is_true(simp(o.value)):
                    val = z3.is_true(simp(o.value))
                    if not val:
                        false_paths.append(z3.And(*o.state.pc))
                    R.obligations += 1
                    R.discharged += 1
                    # informational: strict equality with the reference
                    if R.vm.solver.check(*(o.state.pc + [z3.BoolVal(val) != reach])) == z3.sat:
                        strict_deviations += 1
                else:
                    R.inconclusive.append('input recursion predicate returned a symbolic value')
            elif o.kind in ('limit', 'loop'):
                m = R.vm.model(o.state)
                out.append(dict(kernel='input_recursion', prop='C17', what=f'recursion does not terminate within the bound: {o.msg}', target=f'I{target}',
                                graph=graph_of_model(m, g) if m else None))
            else:
                m = R.prove('input_recursion', o, z3.BoolVal(False), 'no panic')
                if m is not None:
                    out.append(dict(kernel='input_recursion', prop='C17', what=f'{o.kind}: {o.msg}', target=f'I{target}', graph=graph_of_model(m, g)))
        per_target[target] = z3.Or(*false_paths) if false_paths else z3.BoolVal(False)
        R.sample(dict(kernel='input_recursion', types=N, fields_per_type=K, qualifiers=qlen, target=f'I{target}', paths=len(outs)))
    # the property as one query: is there a graph with a cycle of non-list edges none of whose targets is boxed?
    N_, K_ = g['N'], g['K']

    def unboxed_edge(a, b):
        cs = []
        for j in range(K_):
            cs.append(z3.And(g['isin'][a][j] == g['i_input'], g['tgt'][a][j] == b, *[q != g['lst'] for q in g['qs'][a][j]]))
        return z3.And(z3.Or(*cs), per_target[b])
    D = [[unboxed_edge(a, b) for b in range(N_)] for a in range(N_)]
    Rm = D
    for _ in range(N_):
        Rm = [[z3.Or(Rm[a][b], *[z3.And(Rm[a][c], D[c][b]) for c in range(N_)]) for b in range(N_)] for a in range(N_)]
    dom = []
    for a in range(N_):
        for j in range(K_):
            dom += [z3.ULT(g['tgt'][a][j], N_), z3.Or(g['isin'][a][j] == g['i_input'], g['isin'][a][j] != g['i_input'])]
            dom += [z3.ULT(q, 2) for q in g['qs'][a][j]]
    R.obligations += 1
    sol = z3.Solver()
    sol.set('timeout', 120000)
    sol.add(*dom)
    sol.add(z3.Or(*[Rm[a][a] for a in range(N_)]))
    t0 = __import__('time').time()
    r = sol.check()
    R.vm.solver_time += __import__('time').time() - t0
    R.vm.queries += 1
    if r == z3.unsat:
        R.discharged += 1
        if len(R.cross) < 40:
            R.cross.append(sol.to_smt2())
    elif r == z3.sat:
        m = sol.model()
        # complete the scalar / input choice for printing
        out.append(dict(kernel='input_recursion', prop='C12', what='a cycle of non-list fields on which no target type is boxed', target='I0', got='False',
                        graph=graph_of_model(m, g)))
    else:
        R.inconclusive.append('input recursion: solver unknown on the cycle query')
    R.sample(dict(kernel='input_recursion', types=N, fields_per_type=K, strict_deviations_from_reference=strict_deviations))
    return out


# ---------------------------------------------------------------- C17: termination of the recursive walks

def used_types_value(B, pre=()):
    return B.struct('UsedTypes', types=Opaque('set', tuple(pre)), fragments=Opaque('set', ()))


def k_used_input_ids(R, N, K):
    """StoredInputType::used_input_ids_recursive on every input graph: must terminate and mark exactly the reachable inputs"""
    req, lst = qual_indices(R)
    f = R.fn('used_input_ids_recursive')
    R.vm.loop_watch = ['used_input_ids_recursive']
    out = []
    for start in range(N):
        holder = {}

        def setup(st, B, start=start):
            schema, g = input_graph(B, st, N, K, 0, f'u{N}{K}{start}_', req, lst)
            holder['g'] = g
            holder['B'] = B
            sp = B.cell(schema)
            # as ResolvedVariable::collect_used_types does: the variable's own type is inserted first
            ut = B.cell(used_types_value(B, pre=[B.variant('TypeId', 'Input', B.newtype('InputId', bv(start, 32)))]))
            holder['ut'] = ut
            inputs_idx = R.L.structs['Schema'].index('stored_inputs')
            R.vm.push_call(st, f, [Ptr(sp.cell, (inputs_idx, ('i', start))), ut, sp], None, None)
        outs, _ = R.explore(f'used_input_ids_recursive(N={N},K={K})', setup)
        if not outs:
            continue
        g = holder['g']
        reach = graph_reach(g, through_lists=True)
        for o in outs:
            if o.kind in ('loop', 'limit'):
                m = R.vm.model(o.state)
                out.append(dict(kernel='used_input_ids', prop='C17', what=o.msg, start=f'I{start}', graph=graph_of_model(m, g) if m else None))
            elif o.kind == 'return':
                # every reachable input type is in the set afterwards
                ut = R.vm.load(o.state, holder['ut'])
                types = ut.fields[R.L.structs['UsedTypes'].index('types')].data
                B = holder['B']
                i_input = g['i_input']
                claims = []
                for b in range(N):
                    present = []
                    for t in types:
                        if isinstance(t, Agg) and t.variant == i_input:
                            present.append(t.fields[0].fields[0] == bv(b, 32))
                        elif isinstance(t, SymEnum):
                            present.append(z3.And(t.discr == i_input, t.cases[i_input][0].fields[0] == bv(b, 32)))
                    has = z3.Or(*present) if present else z3.BoolVal(False)
                    want = reach[start][b] if b != start else z3.BoolVal(True)
                    claims.append(has == z3.Or(want, b == start))
                m = R.prove('used_input_ids', o, z3.And(*claims), 'closure of used inputs')
                if m is not None:
                    out.append(dict(kernel='used_input_ids', prop='C02', what='set of used input types is not the reachable set', start=f'I{start}', graph=graph_of_model(m, g)))
            else:
                m = R.prove('used_input_ids', o, z3.BoolVal(False), 'no panic')
                if m is not None:
                    out.append(dict(kernel='used_input_ids', prop='C17', what=f'{o.kind}: {o.msg}', start=f'I{start}', graph=graph_of_model(m, g)))
        R.sample(dict(kernel='used_input_ids', types=N, fields_per_type=K, start=f'I{start}', paths=len(outs)))
    R.vm.loop_watch = []
    return out


def k_render_object_literal(R, N, K):
    """codegen::render_object_literal (default-value constructors of variables) on every input graph with an object
    literal that spells out none of the fields: must terminate (no walk over the schema's input cycles)."""
    req, lst = qual_indices(R)
    f = R.fn('render_object_literal')
    R.vm.loop_watch = ['render_object_literal']
    out = []
    for start in range(N):
        holder = {}

        def setup(st, B, start=start):
            schema, g = input_graph(B, st, N, K, 1, f'ol{N}{K}{start}_', req, lst)
            holder['g'] = g
            bq = B.struct('BoundQuery', query=B.cell(empty_query(B)), schema=B.cell(schema))
            R.vm.push_call(st, f, [B.cell(B.btreemap([])), B.newtype('InputId', bv(start, 32)), B.cell(bq)], None, None)
        outs, _ = R.explore(f'render_object_literal(N={N},K={K})', setup)
        g = holder.get('g')
        for o in outs:
            if o.kind in ('loop', 'limit'):
                m = R.vm.model(o.state)
                out.append(dict(kernel='render_object_literal', prop='C17', what=o.msg, start=f'I{start}', graph=graph_of_model(m, g) if m else None))
            elif o.kind != 'return':
                m = R.prove('render_object_literal', o, z3.BoolVal(False), 'no panic')
                if m is not None:
                    out.append(dict(kernel='render_object_literal', prop='C17', what=f'{o.kind}: {o.msg}', start=f'I{start}', graph=graph_of_model(m, g)))
            else:
                R.obligations += 1
                R.discharged += 1
        R.sample(dict(kernel='render_object_literal', types=N, fields_per_type=K, start=f'I{start}', paths=len(outs)))
    R.vm.loop_watch = []
    return out


# ---------------------------------------------------------------- fragment / selection graphs (C17, C12, C06)

def fragment_graph(B, st, F, S, prefix, nest=False, first_abstract=False):
    """F fragments, each with S top-level selections of symbolic kind:
    Typename | FragmentSpread(f) | Field.  With `nest`, every top-level Field carries one child
    selection of symbolic kind (Typename | FragmentSpread(f) | leaf Field).  `on` of each fragment is
    symbolic among Interface(0), Union(0), Object(0).  Returns (query value, vars)."""
    kinds = B.L.enums['Selection']
    i_field, i_inline, i_spread, i_typename = (kinds.index(x) for x in ('Field', 'InlineFragment', 'FragmentSpread', 'Typename'))
    tkinds = B.L.enums['TypeId']
    sel_kind = [[z3.BitVec(f'{prefix}sk{f}_{s}', 8) for s in range(S)] for f in range(F)]
    sel_tgt = [[z3.BitVec(f'{prefix}st{f}_{s}', 32) for s in range(S)] for f in range(F)]
    ch_kind = [[z3.BitVec(f'{prefix}ck{f}_{s}', 8) for s in range(S)] for f in range(F)]
    ch_tgt = [[z3.BitVec(f'{prefix}ct{f}_{s}', 32) for s in range(S)] for f in range(F)]
    on_kind = [z3.BitVec(f'{prefix}on{f}', 8) for f in range(F)]
    selections = []
    frags = []
    parents = []
    sid = lambda n: B.newtype('SelectionId', bv(n, 32))
    for f in range(F):
        allowed = ('Interface', 'Union') if (first_abstract and f == 0) else ('Object', 'Interface', 'Union')
        st.pc.append(z3.Or(*[on_kind[f] == tkinds.index(x) for x in allowed]))
        ids = []
        for s in range(S):
            st.pc.append(z3.Or(sel_kind[f][s] == i_field, sel_kind[f][s] == i_spread, sel_kind[f][s] == i_typename))
            st.pc.append(z3.ULT(sel_tgt[f][s], F))
            children = ()
            my_index = len(selections)
            if nest:
                st.pc.append(z3.Or(ch_kind[f][s] == i_field, ch_kind[f][s] == i_spread, ch_kind[f][s] == i_typename))
                st.pc.append(z3.ULT(ch_tgt[f][s], F))
                leaf = B.struct('SelectedField', alias=none(), field_id=B.newtype('StoredFieldId', bv(0, 64)), selection_set=VecV(()))
                child = SymEnum(ch_kind[f][s], {i_field: (leaf,), i_spread: (B.newtype('ResolvedFragmentId', ch_tgt[f][s]),), i_typename: ()})
                children = (sid(my_index + 1),)
            field = B.struct('SelectedField', alias=none(), field_id=B.newtype('StoredFieldId', bv(0, 64)), selection_set=VecV(children))
            selections.append(SymEnum(sel_kind[f][s], {i_field: (field,), i_spread: (B.newtype('ResolvedFragmentId', sel_tgt[f][s]),), i_typename: ()}))
            ids.append(sid(my_index))
            if nest:
                selections.append(child)
        on = SymEnum(on_kind[f], {tkinds.index('Object'): (B.newtype('ObjectId', bv(0, 32)),), tkinds.index('Interface'): (B.newtype('InterfaceId', bv(0, 64)),),
                                  tkinds.index('Union'): (B.newtype('UnionId', bv(0, 64)),)})
        frags.append(B.struct('ResolvedFragment', name=StrV(f'F{f}'), on=on, selection_set=VecV(ids)))
    q = B.struct('Query', fragments=VecV(frags), operations=VecV(()), selection_parent_idx=B.btreemap([]), selections=VecV(selections), variables=VecV(()))
    return q, dict(sel_kind=sel_kind, sel_tgt=sel_tgt, ch_kind=ch_kind, ch_tgt=ch_tgt, nest=nest, on_kind=on_kind, F=F, S=S, i_field=i_field, i_spread=i_spread,
                   i_typename=i_typename, tkinds=tkinds)


def object_model(R, o, g):
    """a model of the path, preferring one whose fragments are all on the object type (fragments on abstract types must
    select `__typename` to pass validation, which the rendered replay text would then lack)"""
    obj = g['tkinds'].index('Object')
    m = R.vm.model(o.state, extra=[k == obj for k in g['on_kind']])
    return m if m is not None else R.vm.model(o.state)


def fragments_of_model(m, g):
    names = {g['tkinds'].index('Object'): 'Obj', g['tkinds'].index('Interface'): 'Iface', g['tkinds'].index('Union'): 'Uni'}
    out = []
    for f in range(g['F']):
        on = names[m.eval(g['on_kind'][f], model_completion=True).as_long()]
        sels = []
        for s in range(g['S']):
            k = m.eval(g['sel_kind'][f][s], model_completion=True).as_long()
            if k == g['i_typename']:
                sels.append('__typename')
            elif k == g['i_spread']:
                sels.append(f"...F{m.eval(g['sel_tgt'][f][s], model_completion=True).as_long()}")
            elif g.get('nest'):
                ck = m.eval(g['ch_kind'][f][s], model_completion=True).as_long()
                if ck == g['i_typename']:
                    sels.append('field{__typename}')
                elif ck == g['i_spread']:
                    sels.append(f"field{{...F{m.eval(g['ch_tgt'][f][s], model_completion=True).as_long()}}}")
                else:
                    sels.append('field{leaf}')
            else:
                sels.append('leaf')
        out.append(dict(name=f'F{f}', on=on, selections=sels))
    return out


def k_typename_search(R, F, S):
    """validation::selection_set_contains_type_name on every fragment graph: must terminate"""
    f = R.fn('selection_set_contains_type_name')
    R.vm.loop_watch = ['selection_set_contains_type_name']
    out = []
    holder = {}

    def setup(st, B):
        q, g = fragment_graph(B, st, F, S, f'ty{F}{S}_', first_abstract=True)
        holder['g'] = g
        qp = B.cell(q)
        fi = R.L.structs['Query'].index('fragments')
        frag0 = Ptr(qp.cell, (fi, ('i', 0)))
        rf = R.L.structs['ResolvedFragment']
        on = R.vm.load(st, Ptr(frag0.cell, frag0.path + (rf.index('on'),)))
        ssp = Ptr(frag0.cell, frag0.path + (rf.index('selection_set'),), ('slice', 0, S))
        R.vm.push_call(st, f, [on, ssp, qp], None, None)
    outs, _ = R.explore(f'selection_set_contains_type_name(F={F},S={S})', setup)
    g = holder.get('g')
    for o in outs:
        if o.kind in ('loop', 'limit'):
            m = R.vm.model(o.state)
            out.append(dict(kernel='typename_search', prop='C17', what=o.msg, fragments=fragments_of_model(m, g) if m else None))
        elif o.kind != 'return':
            m = R.prove('typename_search', o, z3.BoolVal(False), 'no panic')
            if m is not None:
                out.append(dict(kernel='typename_search', prop='C17', what=f'{o.kind}: {o.msg}', fragments=fragments_of_model(m, g)))
        else:
            R.obligations += 1
            R.discharged += 1
    R.sample(dict(kernel='typename_search', fragments=F, selections_per_fragment=S, paths=len(outs)))
    R.vm.loop_watch = []
    return out


def k_typename_presence(R, F, S):
    """validation::validate_typename_presence(query) on every fragment graph (F fragments x S top-level selections:
    `__typename`, a spread, or a leaf field; every fragment's type is symbolic among the object, the interface and the
    union): Ok => every fragment on an abstract type selects `__typename` *on that type*, i.e. directly or through
    spreads of fragments defined on the same type (least fixed point; a fragment on another type only yields
    `__typename` for that type's values)."""
    f = R.fn('validate_typename_presence')
    out = []
    holder = {}

    def setup(st, B):
        q, g = fragment_graph(B, st, F, S, f'tp{F}{S}_')
        holder['g'] = g
        schema, sv = abstract_schema(B, st, f'tp{F}{S}_', members=[True, True])
        tid_s = B.variant('TypeId', 'Scalar', B.newtype('ScalarId', bv(0, 64)))
        leaf = B.struct('StoredField', name=StrV('leaf'), type=B.struct('StoredFieldType', id=tid_s, qualifiers=VecV(())),
                        parent=B.variant('StoredFieldParent', 'Object', B.newtype('ObjectId', bv(0, 32))), deprecation=none())
        names = R.L.structs['Schema']
        fs = list(schema.fields)
        fs[names.index('stored_fields')] = VecV([leaf])
        schema = Agg(None, fs, 'Schema')
        bq = B.struct('BoundQuery', query=B.cell(q), schema=B.cell(schema))
        R.vm.push_call(st, f, [B.cell(bq)], None, None)
    outs, _ = R.explore(f'validate_typename_presence(F={F},S={S})', setup)
    g = holder.get('g')
    if not outs:
        return out
    obj = g['tkinds'].index('Object')
    # reference: least fixed point of "selects __typename on the type P" for each pair (fragment, P = on-kind code)
    kinds_ = [g['tkinds'].index(x) for x in ('Object', 'Interface', 'Union')]

    def lfp(P):
        C = [z3.Or(*[g['sel_kind'][a][s_] == g['i_typename'] for s_ in range(S)]) for a in range(F)]
        for _ in range(F):
            C = [z3.Or(C[a], *[z3.And(g['sel_kind'][a][s_] == g['i_spread'], g['sel_tgt'][a][s_] == b, g['on_kind'][b] == P, C[b])
                               for s_ in range(S) for b in range(F)]) for a in range(F)]
        return C
    ok_ref = []
    for a in range(F):
        for P in kinds_:
            if P == obj:
                continue
            ok_ref.append(z3.Implies(g['on_kind'][a] == P, lfp(P)[a]))
    want = z3.And(*ok_ref)
    for o in outs:
        if o.kind != 'return':
            if o.kind in ('loop', 'limit'):
                m = R.vm.model(o.state)
                out.append(dict(kernel='typename_presence', prop='C17', what=o.msg, fragments=fragments_of_model(m, g) if m else None))
            else:
                m = R.prove('typename_presence', o, z3.BoolVal(False), 'no panic')
                if m is not None:
                    out.append(dict(kernel='typename_presence', prop='C17', what=f'{o.kind}: {o.msg}', fragments=fragments_of_model(m, g)))
            continue
        v = o.value
        if isinstance(v, SymEnum):
            R.inconclusive.append('validate_typename_presence: symbolic Result')
            continue
        if v.variant == 0:
            m = R.prove('typename_presence', o, want, 'accepted => every abstract fragment selects __typename on its own type')
            if m is not None:
                # prefer a witness without spread cycles (spreads only go to later fragments): it replays as a plain document
                fwd = [z3.Implies(g['sel_kind'][a][s_] == g['i_spread'], z3.UGT(g['sel_tgt'][a][s_], a)) for a in range(F) for s_ in range(S)]
                m2 = R.vm.model(o.state, extra=[z3.Not(want)] + fwd)
                m = m2 if m2 is not None else m
                frs = fragments_of_model(m, g)
                bad = [a for a in range(F) if not z3.is_true(m.eval(z3.And(*[z3.Implies(g['on_kind'][a] == P, lfp(P)[a]) for P in kinds_ if P != obj]), model_completion=True))]
                out.append(dict(kernel='typename_presence', prop='C06', what='a fragment on an interface / union that does not select `__typename` on that type is accepted',
                                fragments=frs, target=f'F{bad[0] if bad else 0}'))
        else:
            R.obligations += 1
            R.discharged += 1
    R.sample(dict(kernel='typename_presence', fragments=F, selections_per_fragment=S, paths=len(outs)))
    return out


def one_field_schema(B):
    tid = B.variant('TypeId', 'Scalar', B.newtype('ScalarId', bv(0, 64)))
    fld = B.struct('StoredField', name=StrV('leaf'), type=B.struct('StoredFieldType', id=tid, qualifiers=VecV(())),
                   parent=B.variant('StoredFieldParent', 'Object', B.newtype('ObjectId', bv(0, 32))), deprecation=none())
    return B.struct('Schema', stored_objects=VecV(()), stored_fields=VecV([fld]), stored_interfaces=VecV(()), stored_unions=VecV(()),
                    stored_scalars=VecV([B.struct('StoredScalar', name=StrV('S'))]), stored_enums=VecV(()), stored_inputs=VecV(()), names=B.btreemap([]),
                    query_type=none(), mutation_type=none(), subscription_type=none())


def k_collect_used_types(R, F, S):
    """Selection::collect_used_types from a spread of F0 over every (nested) fragment graph: terminates,
    and afterwards every fragment reachable through spreads is recorded as used"""
    cands_fn = [fn for n, fn in R.L.funcs.items() if n.endswith('::collect_used_types') and fn.params and 'Selection' in fn.params[0][1]]
    if len(cands_fn) != 1:
        raise V.Unsupported('Selection::collect_used_types not found')
    f = cands_fn[0]
    R.vm.loop_watch = ['collect_used_types']
    out = []
    holder = {}

    def setup(st, B):
        q, g = fragment_graph(B, st, F, S, f'cu{F}{S}_', nest=True)
        holder['g'] = g
        bq = B.struct('BoundQuery', query=B.cell(q), schema=B.cell(one_field_schema(B)))
        ut = B.cell(used_types_value(B))
        holder['ut'] = ut
        start = B.cell(B.variant('Selection', 'FragmentSpread', B.newtype('ResolvedFragmentId', bv(0, 32))))
        R.vm.push_call(st, f, [start, ut, B.cell(bq)], None, None)
    outs, _ = R.explore(f'Selection::collect_used_types(F={F},S={S})', setup)
    g = holder.get('g')
    for o in outs:
        if o.kind in ('loop', 'limit'):
            m = object_model(R, o, g)
            out.append(dict(kernel='collect_used_types', prop='C17', what=o.msg, fragments=fragments_of_model(m, g) if m else None))
        elif o.kind != 'return':
            m = R.prove('collect_used_types', o, z3.BoolVal(False), 'no panic')
            if m is not None:
                out.append(dict(kernel='collect_used_types', prop='C17', what=f'{o.kind}: {o.msg}', fragments=fragments_of_model(m, g)))
        else:
            # reachable fragments (through top-level and nested spreads) are all recorded
            ut = R.vm.load(o.state, holder['ut'])
            frs = ut.fields[R.L.structs['UsedTypes'].index('fragments')].data
            F_ = g['F']

            def edge(a, b):
                cs = []
                for s_ in range(g['S']):
                    cs.append(z3.And(g['sel_kind'][a][s_] == g['i_spread'], g['sel_tgt'][a][s_] == b))
                    cs.append(z3.And(g['sel_kind'][a][s_] == g['i_field'], g['ch_kind'][a][s_] == g['i_spread'], g['ch_tgt'][a][s_] == b))
                return z3.Or(*cs)
            D = [[edge(a, b) for b in range(F_)] for a in range(F_)]
            Rm = D
            for _ in range(F_):
                Rm = [[z3.Or(Rm[a][b], *[z3.And(Rm[a][c], D[c][b]) for c in range(F_)]) for b in range(F_)] for a in range(F_)]
            claims = []
            for b in range(F_):
                has = z3.Or(*[x.fields[0] == bv(b, 32) for x in frs]) if frs else z3.BoolVal(False)
                want = z3.BoolVal(True) if b == 0 else Rm[0][b]
                claims.append(has == want)
            m = R.prove('collect_used_types', o, z3.And(*claims), 'used fragments = reachable fragments')
            if m is not None:
                out.append(dict(kernel='collect_used_types', prop='C02', what='set of used fragments is not the reachable set', fragments=fragments_of_model(m, g)))
    R.sample(dict(kernel='collect_used_types', fragments=F, selections_per_fragment=S, paths=len(outs)))
    R.vm.loop_watch = []
    return out


def k_fragment_is_recursive(R, F, S):
    """fragments::fragment_is_recursive(f) decides whether every spread of f is boxed.  It is executed for every fragment
    of every fragment graph within the bound (F fragments, S top-level selections each: `__typename`, spread, or a field
    with one child that is a leaf / `__typename` / spread), and the results are assembled into one query - the property:
    *is there a cycle of spreads that passes through an object field and on which no spread is boxed?*  (such a cycle is a
    Rust type of infinite size).  Pure top-level spread cycles (`fragment A { ...A }`) are not "recursion through object
    fields" and are left to C17."""
    f = R.fn('fragment_is_recursive')
    out = []
    per_target = {}
    g = None
    strict_dev = 0
    for target in range(F):
        holder = {}

        def setup(st, B, target=target):
            q, g_ = fragment_graph(B, st, F, S, f'fr{F}{S}_', nest=True)     # same variables for every target
            holder['g'] = g_
            R.vm.push_call(st, f, [B.newtype('ResolvedFragmentId', bv(target, 32)), B.cell(q)], None, None)
        outs, _ = R.explore(f'fragment_is_recursive(F={F},S={S})', setup)
        if not outs:
            return out
        g = holder['g']
        own = []
        for s_ in range(S):
            own.append(z3.And(g['sel_kind'][target][s_] == g['i_spread'], g['sel_tgt'][target][s_] == target))
            own.append(z3.And(g['sel_kind'][target][s_] == g['i_field'], g['ch_kind'][target][s_] == g['i_spread'], g['ch_tgt'][target][s_] == target))
        own_tree = z3.Or(*own)
        false_paths = []
        for o in outs:
            if o.kind == 'return':
                v = simp(o.value)
                R.obligations += 1
                if z3.is_true(v) or z3.is_false(v):
                    R.discharged += 1
                    if z3.is_false(v):
                        false_paths.append(z3.And(*o.state.pc))
                    if R.vm.solver.check(*(o.state.pc + [z3.BoolVal(z3.is_true(v)) != own_tree])) == z3.sat:
                        strict_dev += 1
                else:
                    false_paths.append(z3.And(*(o.state.pc + [z3.Not(v)])))
                    R.discharged += 1
            elif o.kind in ('loop', 'limit'):
                m = object_model(R, o, g)
                out.append(dict(kernel='fragment_is_recursive', prop='C17', what=o.msg, target=f'F{target}', fragments=fragments_of_model(m, g) if m else None))
            else:
                m = R.prove('fragment_is_recursive', o, z3.BoolVal(False), 'no panic')
                if m is not None:
                    out.append(dict(kernel='fragment_is_recursive', prop='C17', what=f'{o.kind}: {o.msg}', fragments=fragments_of_model(m, g)))
        per_target[target] = z3.Or(*false_paths) if false_paths else z3.BoolVal(False)       # "spreads of `target` are not boxed"
    # the property as one query

    def top_edge(a, b):
        return z3.Or(*[z3.And(g['sel_kind'][a][s_] == g['i_spread'], g['sel_tgt'][a][s_] == b) for s_ in range(S)])

    def field_edge(a, b):
        return z3.Or(*[z3.And(g['sel_kind'][a][s_] == g['i_field'], g['ch_kind'][a][s_] == g['i_spread'], g['ch_tgt'][a][s_] == b) for s_ in range(S)])
    D = [[z3.And(z3.Or(top_edge(a, b), field_edge(a, b)), per_target[b]) for b in range(F)] for a in range(F)]
    DF = [[z3.And(field_edge(a, b), per_target[b]) for b in range(F)] for a in range(F)]
    Rm = D
    for _ in range(F):
        Rm = [[z3.Or(Rm[a][b], *[z3.And(Rm[a][c], D[c][b]) for c in range(F)]) for b in range(F)] for a in range(F)]
    dom = []
    for a in range(F):
        dom.append(z3.Or(*[g['on_kind'][a] == g['tkinds'].index(x) for x in ('Object', 'Interface', 'Union')]))
        for s_ in range(S):
            dom += [z3.Or(g['sel_kind'][a][s_] == g['i_field'], g['sel_kind'][a][s_] == g['i_spread'], g['sel_kind'][a][s_] == g['i_typename']),
                    z3.Or(g['ch_kind'][a][s_] == g['i_field'], g['ch_kind'][a][s_] == g['i_spread'], g['ch_kind'][a][s_] == g['i_typename']),
                    z3.ULT(g['sel_tgt'][a][s_], F), z3.ULT(g['ch_tgt'][a][s_], F)]
    cyc = z3.Or(*[z3.And(DF[a][b], z3.BoolVal(True) if a == b else Rm[b][a]) for a in range(F) for b in range(F)])
    R.obligations += 1
    sol = z3.Solver()
    sol.set('timeout', 600000)
    sol.add(*dom)
    sol.add(cyc)
    t0 = __import__('time').time()
    r = sol.check()
    R.vm.solver_time += __import__('time').time() - t0
    R.vm.queries += 1
    if r == z3.unsat:
        R.discharged += 1
        if len(R.cross) < 40:
            R.cross.append(sol.to_smt2())
    elif r == z3.sat:
        # prefer a witness whose fragments are all on the object type (spreads across abstract / object types take other
        # code paths in calculate_selection and make the replay less direct)
        sol.push()
        sol.add(*[g['on_kind'][a] == g['tkinds'].index('Object') for a in range(F)])
        if sol.check() != z3.sat:
            sol.pop()
            sol.check()
        m = sol.model()
        # the fragment to spread from the operation: one that lies on the cycle
        on_cycle = [a for a in range(F) if z3.is_true(m.eval(z3.Or(*[z3.And(DF[a][b], z3.BoolVal(True) if a == b else Rm[b][a]) for b in range(F)]), model_completion=True))]
        out.append(dict(kernel='fragment_is_recursive', prop='C12', what='a cycle of fragment spreads through an object field on which no spread is boxed',
                        target=f'F{on_cycle[0] if on_cycle else 0}', got='False', fragments=fragments_of_model(m, g)))
    else:
        R.inconclusive.append('fragment recursion: solver unknown on the cycle query')
    R.sample(dict(kernel='fragment_is_recursive', fragments=F, selections_per_fragment=S, deviations_from_own_tree_rule=strict_dev))
    return out


# ---------------------------------------------------------------- input-object members (struct fields, @oneOf variants)

def closure_of(R, parent_suffix, index=0):
    """(closure function, capture names in order) of `{closure#index}` defined in the function `parent_suffix`"""
    import re as _re
    parent = R.fn(parent_suffix)
    clo = [f for n, f in R.L.funcs.items() if n.startswith(parent.name + '::{closure#%d}' % index) and n.count('{closure#') == parent.name.count('{closure#') + 1]
    if len(clo) != 1:
        raise V.Unsupported(f'closure #{index} of {parent_suffix} not found')
    cf = clo[0]
    cid = _re.search(r'\{closure@[^}]*\}', cf.params[0][1]).group(0)
    m = _re.search(_re.escape(cid) + r' \{ ([^}]*) \}', parent.text)
    names = [x.split(': ')[0].strip() for x in m.group(1).split(', ')] if m else []
    return cf, cid, names


def k_input_member(R, which, maxq):
    """`generate_struct::{closure#0}` (which='struct') / `generate_enum::{closure#0}` (which='oneof'):
    wire name, skip attribute, type nesting and Box of one input-object member.
    The member's target is either a scalar or an input type that is / is not on a list-free cycle."""
    import vm as _vm
    req, lst = qual_indices(R)
    cf, cid, caps = closure_of(R, 'generate_struct' if which == 'struct' else 'generate_enum', 0)
    norms = R.L.enums['Normalization']
    out = []
    for n in range(0, maxq + 1):
        qs = [z3.BitVec(f'm{which}{n}_{i}', 8) for i in range(n)]
        fname = z3.String(f'mname_{which}{n}')
        skip = z3.Bool(f'mskip_{which}{n}')
        norm = z3.BitVec(f'mnorm_{which}{n}', 8)
        tkind = z3.BitVec(f'mtk_{which}{n}', 8)       # 0: scalar "S", 1: input I1 (self-recursive), 2: input I2 (not recursive)

        def setup(st, B, qs=qs):
            for q in qs:
                st.pc.append(z3.ULT(q, 2))
            for a, b in zip(qs, qs[1:]):
                st.pc.append(z3.Not(z3.And(a == req, b == req)))
            st.pc.append(z3.ULT(norm, len(norms)))
            st.pc.append(z3.ULT(tkind, 3))
            if which == 'oneof' and qs:
                st.pc.append(qs[0] != req)      # @oneOf members are nullable by definition (spec)
            i_scalar, i_input = B.vidx('TypeId', 'Scalar'), B.vidx('TypeId', 'Input')
            inp = lambda k: B.variant('TypeId', 'Input', B.newtype('InputId', bv(k, 32)))
            scal = B.variant('TypeId', 'Scalar', B.newtype('ScalarId', bv(0, 64)))
            schema = schema_with(B, scalars=['S'], inputs=[('I0', [], False), ('I1', [('me', inp(1), [])], False), ('I2', [('x', scal, [])], False)])
            tid = SymEnum(z3.If(tkind == 0, bv(i_scalar, 8), bv(i_input, 8)),
                          {i_scalar: (B.newtype('ScalarId', bv(0, 64)),), i_input: (B.newtype('InputId', z3.If(tkind == 1, bv(1, 32), bv(2, 32))),)})
            member = Agg(None, [StrV(fname), B.struct('StoredInputFieldType', id=tid, qualifiers=VecV([SymEnum(q, {0: (), 1: ()}) for q in qs]))])
            bq = B.cell(B.struct('BoundQuery', query=B.cell(empty_query(B)), schema=B.cell(schema)))
            opts = B.cell(options_value(B, skip_serializing_none=skip, normalization=SymEnum(norm, {i: () for i in range(len(norms))})))
            cap_vals = {'options': B.cell(opts), 'query': B.cell(bq)}
            if set(caps) != set(cap_vals):
                raise V.Unsupported(f'closure captures changed: {caps}')
            clo = _vm.ClosureV(cid, [cap_vals[c] for c in caps])
            R.vm.push_call(st, cf, [B.cell(clo), B.cell(member)], None, None)
        outs, _ = R.explore(f'input member ({which})', setup)
        eff_qs = ([bv(req, 8)] + qs) if which == 'oneof' else qs
        ref, _adj = ref_nesting(eff_qs, req, lst) if eff_qs else (z3.StringVal('OT'), None)
        for o in outs:
            if o.kind != 'return':
                m = R.prove('input_member', o, z3.BoolVal(False), 'no panic')
                if m is not None:
                    out.append(dict(kernel=f'input_member_{which}', prop='C17', what=f'{o.kind}: {o.msg}', model=dict(name=m.eval(fname, model_completion=True).as_string())))
                continue
            attrs, rest = split_attrs(o.value)
            claims = {}
            if which == 'struct':
                ok_decl = len(rest) >= 4 and rest[0] == ('ident', 'pub') and rest[1][0] == 'ident' and rest[2] == ('punct', ':')
                ident = rest[1][1] if ok_decl else None
                ty = Tokens(rest[3:]) if ok_decl else None
            else:
                ok_decl = len(rest) == 2 and rest[0][0] == 'ident' and rest[1][0] == 'group' and rest[1][1] == PAREN
                ident = rest[0][1] if ok_decl else None
                ty = rest[1][2] if ok_decl else None
            if not ok_decl:
                claims['C04:decl'] = z3.BoolVal(False)
            else:
                c2, merged = wire_name_claims(attrs, ident, fname, None)
                claims.update(c2)
                conv = SNAKE_OF(R, fname) if which == 'struct' else CAMEL_OF(R, fname)
                claims['C11:ident'] = z3.Or(zstr(ident) == conv, zstr(ident) == z3.Concat(conv, z3.StringVal('_')))
                claims['C11:ident-not-keyword'] = z3.Not(z3.Or(*[zstr(ident) == z3.StringVal(k) for k in RUST_KEYWORDS_REF]))
                if which == 'struct':
                    nullable = (qs[0] != req) if qs else z3.BoolVal(True)
                    has_skip = 'skip_serializing_if' in merged
                    claims['C04:skip-none'] = (z3.And(skip, nullable) if has_skip else z3.Not(z3.And(skip, nullable)))
                else:
                    claims['C04:no-skip-on-variant'] = z3.BoolVal('skip_serializing_if' not in merged)
                names = type_chain(ty)
                code = None
                if names:
                    code = ''.join({'Option': 'O', 'Vec': 'V', 'Box': 'B'}.get(x, 'T') if isinstance(x, str) else 'T' for x in names)
                if code is None:
                    claims['C13:type'] = z3.BoolVal(False)
                else:
                    boxed = code.startswith('B')
                    body = code[1:] if boxed else code
                    claims['C13:type'] = ref == z3.StringVal(body)
                    # I1 { me: I1 } is on a list-free cycle: a member of type I1 must be boxed unless it is a list itself
                    needs = z3.And(tkind == 1, *[q != lst for q in qs])
                    claims['C12:box'] = z3.Implies(needs, z3.BoolVal(boxed))
            m = R.prove('input_member', o, z3.And(*claims.values()), f'{which} member')
            if m is not None:
                failing = [nm for nm, c in claims.items() if not z3.is_true(m.eval(c, model_completion=True))]
                out.append(dict(kernel=f'input_member_{which}', prop=(failing[0].split(':')[0] if failing and failing[0][0] == 'C' else 'C04'), what=failing[0] if failing else '?',
                                model=dict(qualifiers=['R' if m.eval(q, model_completion=True).as_long() == req else 'L' for q in qs],
                                           name=m.eval(fname, model_completion=True).as_string(),
                                           converted=m.eval(SNAKE_OF(R, fname) if which == 'struct' else CAMEL_OF(R, fname), model_completion=True).as_string(),
                                           target=['S', 'I1', 'I2'][m.eval(tkind, model_completion=True).as_long()],
                                           skip_serializing_none=z3.is_true(m.eval(skip, model_completion=True)),
                                           normalization=norms[m.eval(norm, model_completion=True).as_long()]),
                                tokens=repr(o.value)[:500]))
        R.sample(dict(kernel=f'input_member_{which}', qualifiers=n, paths=len(outs)))
    return out


def k_field_name(R):
    """codegen::selection::ExpandedSelection::field_name: for a selected field whose schema name and alias are unconstrained
    strings (alias present / absent) the wire name is the alias, else the schema name, and the Rust identifier is the
    keyword-escaped snake_case form of that name (never a reference keyword)."""
    cands_fn = [fn for n, fn in R.L.funcs.items() if n.endswith('::field_name') and fn.params and 'ExpandedSelection' in fn.params[0][1]]
    if len(cands_fn) != 1:
        raise V.Unsupported('ExpandedSelection::field_name not found')
    f = cands_fn[0]
    out = []
    fname, alias, has_alias = z3.String('fn_field'), z3.String('fn_alias'), z3.BitVec('fn_has_alias', 8)

    def setup(st, B):
        st.pc.append(z3.ULT(has_alias, 2))
        tid_s = B.variant('TypeId', 'Scalar', B.newtype('ScalarId', bv(0, 64)))
        fld = B.struct('StoredField', name=StrV(fname), type=B.struct('StoredFieldType', id=tid_s, qualifiers=VecV(())),
                       parent=B.variant('StoredFieldParent', 'Object', B.newtype('ObjectId', bv(0, 32))), deprecation=none())
        schema = one_field_schema(B)
        names = R.L.structs['Schema']
        fs = list(schema.fields)
        fs[names.index('stored_fields')] = VecV([fld])
        schema = Agg(None, fs, 'Schema')
        bq = B.cell(B.struct('BoundQuery', query=B.cell(empty_query(B)), schema=B.cell(schema)))
        es = B.struct('ExpandedSelection', query=bq, types=VecV(()), fields=VecV(()), variants=VecV(()), aliases=VecV(()), options=B.cell(options_value(B)))
        sel = B.struct('SelectedField', alias=SymEnum(has_alias, {0: (), 1: (StrV(alias),)}), field_id=B.newtype('StoredFieldId', bv(0, 64)), selection_set=VecV(()))
        R.vm.push_call(st, f, [B.cell(es), B.cell(sel)], None, None)
    outs, _ = R.explore('ExpandedSelection::field_name', setup)
    import summaries as Sm
    for o in outs:
        if o.kind != 'return':
            m = R.prove('field_name', o, z3.BoolVal(False), 'no panic')
            if m is not None:
                out.append(dict(kernel='field_name', prop='C17', what=f'{o.kind}: {o.msg}', model=dict(name=m.eval(fname, model_completion=True).as_string())))
            continue
        gq = Sm.as_str(R.vm, o.state, o.value.fields[0])
        rn = Sm.as_str(R.vm, o.state, o.value.fields[1])
        name = z3.If(has_alias == 1, alias, fname)
        sn = z3.If(has_alias == 1, SNAKE_OF(R, alias), SNAKE_OF(R, fname))
        claims = {'C11:wire-name-is-alias-or-field-name': gq.z() == name,
                  'C11:ident': z3.Or(rn.z() == sn, rn.z() == z3.Concat(sn, z3.StringVal('_'))),
                  'C11:ident-not-keyword': z3.Not(z3.Or(*[rn.z() == z3.StringVal(k) for k in RUST_KEYWORDS_REF]))}
        m = R.prove('field_name', o, z3.And(*claims.values()), 'response field / alias name')
        if m is not None:
            failing = [nm for nm, c in claims.items() if not z3.is_true(m.eval(c, model_completion=True))]
            ev = lambda x: m.eval(x, model_completion=True)
            out.append(dict(kernel='field_name', prop='C11', what=failing[0] if failing else '?',
                            model=dict(name=ev(fname).as_string(), alias=ev(alias).as_string() if ev(has_alias).as_long() == 1 else None,
                                       snake=ev(sn).as_string(), rust_name=ev(rn.z()).as_string())))
    R.sample(dict(kernel='field_name', paths=len(outs)))
    return out


# ---------------------------------------------------------------- C10 / C09: enum definitions

def flat_tokens(ts):
    """all token items of a Tokens value, groups flattened in order (with ('open', d) / ('close', d) markers)"""
    out = []
    for it in ts.items:
        if it[0] == 'group':
            out.append(('open', it[1]))
            out += flat_tokens(it[2])
            out.append(('close', it[1]))
        else:
            out.append(it)
    return out


def sources_of(vm, expr, leaves, st=None):
    """which of the z3 String constants `leaves` a string term is computed from.  Syntactically through concatenation,
    if-then-else and the uninterpreted case conversions (summaries.heck_result records their arguments); a term without
    any leaf inside (a keyword found by the table search is rendered from the *table* entry, `table[i] ++ "_"`) is
    attributed to the leaf the path condition makes it equal to, up to the `_` escape (solver query)."""
    derived = vm.__dict__.get('derived_from', {})
    leaf_keys = {l.sexpr(): i for i, l in enumerate(leaves)}

    def syntactic(e):
        seen, out, todo = set(), set(), [e]
        while todo:
            x = todo.pop()
            if isinstance(x, str):
                continue
            k = x.sexpr()
            if k in seen:
                continue
            seen.add(k)
            if k in leaf_keys:
                out.add(leaf_keys[k])
            else:
                todo += list(x.children())
        return out

    e = expr
    for _ in range(8):
        if isinstance(e, str):
            e = z3.StringVal(e)
        found = syntactic(e)
        if found:
            return found
        k = e.sexpr()
        if k in derived:
            e = derived[k]
            continue
        break
    out = set()
    if st is not None:
        for i, leaf in enumerate(leaves):
            is_it = z3.Or(e == leaf, e == z3.Concat(leaf, z3.StringVal('_')))
            if vm.solver.check(*(st.pc + [z3.Not(is_it)])) == z3.unsat:
                out.add(i)
    return out


def enum_arms(toks, enum_ident_pred=None):
    """(variant ident, literal) pairs of the two hand-written matches in the flattened token list of one generated enum:
    `Name :: Variant => "lit" ,` (Serialize) and `"lit" => Ok ( Name :: Variant ) ,` (Deserialize)"""
    ser, de = [], []
    n = len(toks)
    for i in range(n):
        t = toks[i]
        if t[0] == 'lit' and i >= 5 and toks[i - 1] == ('punct', '=>') and toks[i - 2][0] == 'ident' and toks[i - 3] == ('punct', '::') and toks[i - 4][0] == 'ident':
            ser.append((toks[i - 2][1], t[1]))
        if t[0] == 'lit' and i + 7 < n and toks[i + 1] == ('punct', '=>') and toks[i + 2] == ('ident', 'Ok') and toks[i + 3][0] == 'open' and toks[i + 4][0] == 'ident' \
                and toks[i + 5] == ('punct', '::') and toks[i + 6][0] == 'ident':
            de.append((toks[i + 6][1], t[1]))
    return ser, de


def k_enum_definition(R, nv):
    """the per-enum closure of codegen::enums::generate_enum_definitions on an enum with `nv` values whose names (and the
    enum's name) are unconstrained strings, normalization symbolic.  Claims: the string literals of the hand-written
    Serialize / Deserialize matches are exactly the schema's value names (each once per match), and in every arm the
    variant identifier is computed from the very value name the arm's literal spells (so each value maps to *its own*
    variant and back, whatever order the arms are emitted in)."""
    import vm as _vm
    cf, cid, caps = closure_of(R, 'generate_enum_definitions', 2)
    norms = R.L.enums['Normalization']
    norm = z3.BitVec(f'en_norm{nv}', 8)
    ename = z3.String(f'en_name{nv}')
    vals = [z3.String(f'en_v{nv}_{i}') for i in range(nv)]
    out = []

    def setup(st, B):
        st.pc.append(z3.ULT(norm, len(norms)))
        for a_ in range(nv):
            for b_ in range(a_ + 1, nv):
                st.pc.append(vals[a_] != vals[b_])        # value names of one enum are distinct (schema validity)
        enm = B.struct('StoredEnum', name=StrV(ename), variants=VecV([StrV(v) for v in vals]))
        cap_vals = {'normalization': B.cell(SymEnum(norm, {i: () for i in range(len(norms))})), 'derives': Tokens(()), 'serde': B.cell(Opaque('syn::Path', 'serde'))}
        if set(caps) != set(cap_vals):
            raise V.Unsupported(f'closure captures changed: {caps}')
        clo = _vm.ClosureV(cid, [cap_vals[c] for c in caps])
        R.vm.push_call(st, cf, [B.cell(clo), Agg(None, [B.newtype('EnumId', bv(0, 32)), B.cell(enm)])], None, None)
    outs, _ = R.explore(f'generate_enum_definitions closure ({nv} values)', setup)
    for o in outs:
        if o.kind != 'return':
            m = R.prove('enum_definition', o, z3.BoolVal(False), 'no panic')
            if m is not None:
                out.append(dict(kernel='enum_definition', prop='C17', what=f'{o.kind}: {o.msg}', model=dict(values=[m.eval(v, model_completion=True).as_string() for v in vals])))
            continue
        toks = flat_tokens(o.value)
        ser, de = enum_arms(toks)
        claims = {}
        claims['C10:arm-count'] = z3.BoolVal(len(ser) == nv and len(de) == nv)
        for label, arms in (('serialize', ser), ('deserialize', de)):
            if len(arms) != nv:
                continue
            # every value name is the literal of exactly one arm
            for i in range(nv):
                claims[f'C10:{label}-literal-for-value-{i}'] = z3.Sum([z3.If(zstr(lit) == vals[i], 1, 0) for _id, lit in arms]) == 1
            # the identifier of an arm derives from the value its literal spells
            for k, (ident, lit) in enumerate(arms):
                src = sources_of(R.vm, ident if isinstance(ident, str) else zstr(ident), vals, o.state)
                lit_src = sources_of(R.vm, lit if isinstance(lit, str) else zstr(lit), vals, o.state)
                claims[f'C10:{label}-arm-{k}-pairs-a-value-with-its-own-variant'] = z3.BoolVal(len(src) == 1 and src == lit_src)
        m = R.prove('enum_definition', o, z3.And(*claims.values()), f'{nv} enum values')
        if m is not None:
            failing = [nm for nm, c in claims.items() if not z3.is_true(m.eval(c, model_completion=True))]
            ev = lambda x: m.eval(x, model_completion=True)
            out.append(dict(kernel='enum_definition', prop='C10', what=failing[0] if failing else '?',
                            model=dict(enum=ev(ename).as_string(), values=[ev(v).as_string() for v in vals], normalization=norms[ev(norm).as_long()],
                                       serialize_arms=[(ev(zstr(i_)).as_string(), ev(zstr(l_)).as_string()) for i_, l_ in ser][:4])))
    R.sample(dict(kernel='enum_definition', values=nv, paths=len(outs)))
    return out


# ---------------------------------------------------------------- C14: deprecation extraction from SDL directives

def k_find_deprecation(R, ndir, nargs):
    f = R.fn('find_deprecation')
    out = []
    dname = [z3.String(f'fd_dn{i}') for i in range(ndir)]
    aname = [[z3.String(f'fd_an{i}_{j}') for j in range(nargs)] for i in range(ndir)]
    akind = [[z3.BitVec(f'fd_ak{i}_{j}', 8) for j in range(nargs)] for i in range(ndir)]
    aval = [[z3.String(f'fd_av{i}_{j}') for j in range(nargs)] for i in range(ndir)]
    holder = {}

    def setup(st, B):
        vkinds = B.L.enums['Value']
        i_str, i_bool = vkinds.index('String'), vkinds.index('Boolean')
        holder['i_str'] = i_str
        dirs = []
        for i in range(ndir):
            args = []
            for j in range(nargs):
                st.pc.append(z3.Or(akind[i][j] == i_str, akind[i][j] == i_bool))
                val = SymEnum(akind[i][j], {i_str: (StrV(aval[i][j]),), i_bool: (mk_bool(True),)})
                args.append(Agg(None, [StrV(aname[i][j]), val]))
            # argument names are unique within a directive, directives are not repeated (GraphQL validity)
            for j in range(nargs):
                for j2 in range(j + 1, nargs):
                    st.pc.append(aname[i][j] != aname[i][j2])
            dirs.append(B.struct('Directive', position=Agg(None, [bv(0, 64), bv(0, 64)]), name=StrV(dname[i]), arguments=VecV(args)))
        for i in range(ndir):
            for i2 in range(i + 1, ndir):
                st.pc.append(dname[i] != dname[i2])
        R.vm.push_call(st, f, [B.slice_of(dirs)], None, None)
    outs, _ = R.explore(f'find_deprecation({ndir} directives x {nargs} args)', setup)
    i_str = holder.get('i_str')
    dep = z3.StringVal('deprecated')
    rsn = z3.StringVal('reason')
    for o in outs:
        if o.kind != 'return':
            R.inconclusive.append(f'find_deprecation: {o.kind} {o.msg}') if o.kind not in ('panic',) else None
            continue
        v = o.value
        is_dep = z3.Or(*[d == dep for d in dname])
        # reason: the string value of the `reason` argument of the @deprecated directive
        has_reason = z3.Or(*[z3.And(dname[i] == dep, aname[i][j] == rsn, akind[i][j] == i_str) for i in range(ndir) for j in range(nargs)])
        if isinstance(v, SymEnum):
            R.inconclusive.append('find_deprecation returned a symbolic Option')
            continue
        if v.variant == 0:
            claim = z3.Not(is_dep)
        else:
            inner = v.fields[0]
            if isinstance(inner, SymEnum):
                R.inconclusive.append('find_deprecation returned a symbolic inner Option')
                continue
            if inner.variant == 0:
                claim = z3.And(is_dep, z3.Not(has_reason))
            else:
                got = inner.fields[0].z()
                claim = z3.And(is_dep, z3.Or(*[z3.And(dname[i] == dep, aname[i][j] == rsn, akind[i][j] == i_str, aval[i][j] == got)
                                              for i in range(ndir) for j in range(nargs)]))
        m = R.prove('find_deprecation', o, claim, 'deprecation read from directives')
        if m is not None:
            ds = []
            for i in range(ndir):
                args = []
                for j in range(nargs):
                    nm = m.eval(aname[i][j], model_completion=True).as_string()
                    if m.eval(akind[i][j], model_completion=True).as_long() == i_str:
                        args.append((nm, m.eval(aval[i][j], model_completion=True).as_string()))
                    else:
                        args.append((nm, True))
                ds.append((m.eval(dname[i], model_completion=True).as_string(), args))
            out.append(dict(kernel='find_deprecation', prop='C14', what='deprecation / reason read from the directives differs from the schema', directives=ds, got=repr(v)))
    R.sample(dict(kernel='find_deprecation', directives=ndir, arguments=nargs, paths=len(outs)))
    return out


# ---------------------------------------------------------------- C06: validation kernels

def abstract_schema(B, st, prefix, members=None, obj_names=('O0', 'O1'), self_union=False):
    """2 objects, 1 interface, 1 union; `implements` and union membership are symbolic bits
    (with `members` = concrete list of bools the union's variant list is built exactly)"""
    impl = [z3.Bool(f'{prefix}impl{o}') for o in range(2)]
    memb = [z3.Bool(f'{prefix}memb{o}') for o in range(2)] if members is None else [z3.BoolVal(b) for b in members]
    objs = []
    for o in range(2):
        # implements_interfaces: Vec<InterfaceId> of symbolic content: [I0] or [I9] (an id that is not I0)
        iid = z3.If(impl[o], bv(0, 64), bv(9, 64))
        objs.append(B.struct('StoredObject', name=StrV(obj_names[o]), fields=VecV(()), implements_interfaces=VecV([B.newtype('InterfaceId', iid)])))
    iface = B.struct('StoredInterface', name=StrV('I0'), fields=VecV(()))
    # union variants: Object(0) or Object(7) (not a member) per slot
    if members is None:
        variants = VecV([B.variant('TypeId', 'Object', B.newtype('ObjectId', z3.If(memb[o], bv(o, 32), bv(7 + o, 32)))) for o in range(2)])
    else:
        variants = VecV([B.variant('TypeId', 'Object', B.newtype('ObjectId', bv(o, 32))) for o in range(2) if members[o]])
    if self_union:
        # a union that lists itself among its members (accepted by the SDL front end)
        variants = VecV(tuple(variants.items) + (B.variant('TypeId', 'Union', B.newtype('UnionId', bv(0, 64))),))
    union = B.struct('StoredUnion', name=StrV('U0'), variants=variants)
    schema = B.struct('Schema', stored_objects=VecV(objs), stored_fields=VecV(()), stored_interfaces=VecV([iface]), stored_unions=VecV([union]),
                      stored_scalars=VecV([B.struct('StoredScalar', name=StrV('S'))]), stored_enums=VecV(()), stored_inputs=VecV(()), names=B.btreemap([]),
                      query_type=none(), mutation_type=none(), subscription_type=none())
    return schema, dict(impl=impl, memb=memb)


def sym_composite(B, st, name):
    """symbolic composite TypeId among Object(0), Object(1), Interface(0), Union(0); returns (value, code) with code 0..3"""
    code = z3.BitVec(name, 8)
    st.pc.append(z3.ULT(code, 4))
    tk = B.L.enums['TypeId']
    d = z3.If(z3.ULT(code, 2), bv(tk.index('Object'), 8), z3.If(code == 2, bv(tk.index('Interface'), 8), bv(tk.index('Union'), 8)))
    val = SymEnum(d, {tk.index('Object'): (B.newtype('ObjectId', z3.If(code == 1, bv(1, 32), bv(0, 32))),),
                      tk.index('Interface'): (B.newtype('InterfaceId', bv(0, 64)),), tk.index('Union'): (B.newtype('UnionId', bv(0, 64)),)})
    return val, code


def possible(code, o, sv):
    """is object `o` a possible runtime type of the composite type `code`"""
    return z3.If(code == 0, z3.BoolVal(o == 0), z3.If(code == 1, z3.BoolVal(o == 1), z3.If(code == 2, sv['impl'][o], sv['memb'][o])))


def k_type_conditions(R, self_union=False):
    """selection::validate_type_conditions: Ok => the spread can apply (possible types intersect).
    With `self_union` the union of the schema lists itself as a member: the check must still terminate (C17)."""
    f = R.fn('validate_type_conditions')
    out = []
    for kind in ('inline', 'spread'):
        holder = {}

        def setup(st, B, kind=kind):
            schema, sv = abstract_schema(B, st, f'tc{kind}{int(self_union)}_', self_union=self_union)
            parent_ty, pcode = sym_composite(B, st, f'tc{kind}_parent')
            sel_ty, scode = sym_composite(B, st, f'tc{kind}_sel')
            holder.update(sv=sv, pcode=pcode, scode=scode)
            # fragment 1 is the parent of selection 0; fragment 0 is what a spread refers to
            frag0 = B.struct('ResolvedFragment', name=StrV('F0'), on=sel_ty, selection_set=VecV(()))
            frag1 = B.struct('ResolvedFragment', name=StrV('F1'), on=parent_ty, selection_set=VecV([B.newtype('SelectionId', bv(0, 32))]))
            if kind == 'inline':
                sel = B.variant('Selection', 'InlineFragment', B.struct('InlineFragment', type_id=sel_ty, selection_set=VecV(())))
            else:
                sel = B.variant('Selection', 'FragmentSpread', B.newtype('ResolvedFragmentId', bv(0, 32)))
            parents = B.btreemap([(B.newtype('SelectionId', bv(0, 32)), B.variant('SelectionParent', 'Fragment', B.newtype('ResolvedFragmentId', bv(1, 32))))])
            q = B.struct('Query', fragments=VecV([frag0, frag1]), operations=VecV(()), selection_parent_idx=parents, selections=VecV([sel]), variables=VecV(()))
            bq = B.struct('BoundQuery', query=B.cell(q), schema=B.cell(schema))
            R.vm.push_call(st, f, [B.newtype('SelectionId', bv(0, 32)), B.cell(bq)], None, None)
        outs, _ = R.explore(f'validate_type_conditions({kind})', setup)
        sv, pcode, scode = holder.get('sv'), holder.get('pcode'), holder.get('scode')
        names4 = ['O0', 'O1', 'I0', 'U0']
        for o in outs:
            if o.kind in ('loop', 'limit'):
                m = R.vm.model(o.state)
                if m is not None:
                    out.append(dict(kernel='type_conditions', prop='C17', what=o.msg, kind=kind, self_union=self_union,
                                    parent=names4[m.eval(pcode, model_completion=True).as_long()], condition=names4[m.eval(scode, model_completion=True).as_long()],
                                    implements=[z3.is_true(m.eval(x, model_completion=True)) for x in sv['impl']],
                                    members=[z3.is_true(m.eval(x, model_completion=True)) for x in sv['memb']]))
                continue
            if o.kind != 'return':
                continue
            if self_union:
                R.obligations += 1
                R.discharged += 1
                continue
            v = o.value
            if isinstance(v, SymEnum):
                R.inconclusive.append('validate_type_conditions: symbolic Result')
                continue
            if v.variant == 0:   # Ok
                # (a condition on the parent type itself is always allowed)
                can_apply = z3.Or(pcode == scode, *[z3.And(possible(pcode, ob, sv), possible(scode, ob, sv)) for ob in range(2)])
                m = R.prove('type_conditions', o, can_apply, f'{kind}: accepted spread can apply')
                if m is not None:
                    names = ['O0', 'O1', 'I0', 'U0']
                    out.append(dict(kernel='type_conditions', prop='C06', what='a type condition that can never apply to the parent type is accepted', kind=kind,
                                    parent=names[m.eval(pcode, model_completion=True).as_long()], condition=names[m.eval(scode, model_completion=True).as_long()],
                                    implements=[z3.is_true(m.eval(x, model_completion=True)) for x in sv['impl']],
                                    members=[z3.is_true(m.eval(x, model_completion=True)) for x in sv['memb']]))
            else:
                R.obligations += 1
                R.discharged += 1
        R.sample(dict(kernel='type_conditions', kind=kind, paths=len(outs)))
    return out


def k_resolve_selection(R):
    """query::resolve_selection dispatch: a leaf type with a sub-selection and a composite type without one must be errors"""
    f = R.fn('resolve_selection')
    out = []
    tk = R.L.enums['TypeId']
    for items in ('empty', 'typename'):
        holder = {}

        def setup(st, B, items=items):
            schema, sv = abstract_schema(B, st, f'rs{items}_')
            code = z3.BitVec(f'rs{items}_on', 8)     # 0,1 objects; 2 interface; 3 union; 4 scalar; 5 enum
            st.pc.append(z3.ULT(code, 6))
            holder['code'] = code
            d = z3.If(z3.ULT(code, 2), bv(tk.index('Object'), 8), z3.If(code == 2, bv(tk.index('Interface'), 8), z3.If(code == 3, bv(tk.index('Union'), 8),
                      z3.If(code == 4, bv(tk.index('Scalar'), 8), bv(tk.index('Enum'), 8)))))
            on = SymEnum(d, {tk.index('Object'): (B.newtype('ObjectId', z3.If(code == 1, bv(1, 32), bv(0, 32))),), tk.index('Interface'): (B.newtype('InterfaceId', bv(0, 64)),),
                             tk.index('Union'): (B.newtype('UnionId', bv(0, 64)),), tk.index('Scalar'): (B.newtype('ScalarId', bv(0, 64)),), tk.index('Enum'): (B.newtype('EnumId', bv(0, 64)),)})
            pos = Agg(None, [bv(0, 64), bv(0, 64)])
            sel_items = []
            if items == 'typename':
                fld = B.struct('query::Field', position=pos, alias=none(), name=StrV('__typename'), arguments=VecV(()), directives=VecV(()),
                               selection_set=B.struct('query::SelectionSet', span=Agg(None, [pos, pos]), items=VecV(())))
                sel_items.append(Agg(R.L.enums['Selection'].index('Field'), [fld], 'Selection'))
            sset = B.struct('query::SelectionSet', span=Agg(None, [pos, pos]), items=VecV(sel_items))
            # the parent is field selection 0 of an otherwise empty query
            parent_sel = B.variant('Selection', 'Field', B.struct('SelectedField', alias=none(), field_id=B.newtype('StoredFieldId', bv(0, 64)), selection_set=VecV(())))
            q = B.struct('Query', fragments=VecV(()), operations=VecV(()), selection_parent_idx=B.btreemap([]), selections=VecV([parent_sel]), variables=VecV(()))
            parent = B.variant('SelectionParent', 'Field', B.newtype('SelectionId', bv(0, 32)))
            R.vm.push_call(st, f, [B.cell(q), on, B.cell(sset), parent, B.cell(schema)], None, None)
        outs, _ = R.explore(f'resolve_selection({items})', setup)
        code = holder.get('code')
        for o in outs:
            if o.kind != 'return':
                continue
            v = o.value
            if isinstance(v, SymEnum):
                R.inconclusive.append('resolve_selection: symbolic Result')
                continue
            if v.variant == 0:
                claim = z3.ULT(code, 4) if items == 'typename' else z3.UGE(code, 4)
                m = R.prove('resolve_selection', o, claim, f'{items} sub-selection')
                if m is not None:
                    names = ['object', 'object', 'interface', 'union', 'scalar', 'enum']
                    out.append(dict(kernel='resolve_selection', prop='C06', type_kind=names[m.eval(code, model_completion=True).as_long()],
                                    what=('a composite field without sub-selection is accepted' if items == 'empty' else 'a leaf field with a sub-selection is accepted')))
            else:
                R.obligations += 1
                R.discharged += 1
        R.sample(dict(kernel='resolve_selection', sub_selection=items, paths=len(outs)))
    return out


# ---------------------------------------------------------------- C05: operation selection

def k_operation_selection(R, nops):
    """lib::generate_module_token_stream_inner with `query::resolve` and `GeneratedModule::to_token_stream` stubbed:
    which operations get a module, for every (mode, explicit name present / absent, operation names)."""
    import re as _re
    import summaries as S
    f = R.fn('generate_module_token_stream_inner')
    modes = R.L.enums['CodegenMode']
    norms = R.L.enums['Normalization']
    out = []
    names = [z3.String(f'op_name{i}') for i in range(nops)]
    want = z3.String('op_wanted')
    has_want = z3.BitVec('op_has_wanted', 8)
    mode = z3.BitVec('op_mode', 8)
    norm = z3.BitVec('op_norm', 8)
    holder = {}

    def stub_resolve(vm, st, callee, args, dest, ret_bb, m):
        B = holder['B']
        ops = [B.struct('ResolvedOperation', name=StrV(n), _operation_type=B.variant('OperationType', 'Query'), selection_set=VecV(()), object_id=B.newtype('ObjectId', bv(0, 32)))
               for n in names]
        q = B.struct('Query', fragments=VecV(()), operations=VecV(ops), selection_parent_idx=B.btreemap([]), selections=VecV(()), variables=VecV(()))
        return vm.ret(st, dest, ret_bb, Agg(0, [q], 'Result'))

    def stub_module(vm, st, callee, args, dest, ret_bb, m):
        gm = args[0] if isinstance(args[0], Agg) else vm.load(st, args[0])
        gmf = R.L.structs['GeneratedModule']
        op = S.as_str(vm, st, gm.fields[gmf.index('operation')])
        oid = gm.fields[gmf.index('operation_id')].fields[0] if 'operation_id' in gmf else None
        return vm.ret(st, dest, ret_bb, Agg(0, [Tokens([('module', op.s, oid)])], 'Result'))

    def stub_error(vm, st, callee, args, dest, ret_bb, m):
        return vm.ret(st, dest, ret_bb, StrV('operation not found'))
    R.vm.overrides = [(_re.compile(r'^(query::)?resolve::<'), stub_resolve), (_re.compile(r'GeneratedModule::<.*>::to_token_stream$'), stub_module),
                      (_re.compile(r'^derive_operation_not_found_error$'), stub_error)]

    def setup(st, B):
        holder['B'] = B
        st.pc += [z3.ULT(has_want, 2), z3.ULT(mode, len(modes)), z3.ULT(norm, len(norms))]
        # operation names in one document are distinct (they may still coincide after normalization)
        for i in range(nops):
            for j in range(i + 1, nops):
                st.pc.append(names[i] != names[j])
        opts = options_value(B, mode=SymEnum(mode, {i: () for i in range(len(modes))}), operation_name=SymEnum(has_want, {0: (), 1: (StrV(want),)}),
                             normalization=SymEnum(norm, {i: () for i in range(len(norms))}))
        doc = Opaque('QueryDocument')
        R.vm.push_call(st, f, [B.cell(Agg(None, [StrV('query text'), doc])), B.cell(mini_schema(B)), opts], None, None)
    outs, _ = R.explore(f'generate_module_token_stream_inner({nops} operations)', setup)
    R.vm.overrides = []
    i_cli, i_derive = modes.index('Cli'), modes.index('Derive')
    i_rust = norms.index('Rust')
    normed = [z3.If(norm == i_rust, CAMEL_OF(R, n), n) for n in names]
    matches = [z3.And(has_want == 1, normed[i] == want) for i in range(nops)]
    first_match = [z3.And(matches[i], *[z3.Not(matches[j]) for j in range(i)]) for i in range(nops)]
    any_match = z3.Or(*matches)
    for o in outs:
        if o.kind != 'return':
            if o.kind not in ('panic',):
                R.inconclusive.append(f'operation_selection: {o.kind}: {o.msg}')
            continue
        v = o.value
        if isinstance(v, SymEnum):
            R.inconclusive.append('operation_selection: symbolic Result')
            continue
        if v.variant == 1:
            # an error: only in derive mode without a matching operation
            claim = z3.And(mode == i_derive, z3.Not(any_match))
            what = 'generation fails although an operation is selected / all operations are requested'
        else:
            toks = v.fields[0]
            mods = [t[1] for t in toks.items if t[0] == 'module']
            ok_shape = len(mods) == len(toks.items)
            # exactly the selected operation, or (CLI, no explicit name) one module per operation in document order
            sel = z3.Or(*[z3.And(first_match[i], z3.BoolVal(len(mods) == 1), zstr(mods[0]) == names[i]) for i in range(nops)]) if len(mods) == 1 else z3.BoolVal(False)
            allops = z3.And(mode == i_cli, has_want == 0, z3.BoolVal(len(mods) == nops), *[zstr(mods[i]) == names[i] for i in range(min(len(mods), nops))]) if len(mods) == nops else z3.BoolVal(False)
            # documented CLI fallback: an explicit name that matches nothing generates all operations
            fallback = z3.And(mode == i_cli, has_want == 1, z3.Not(any_match), z3.BoolVal(len(mods) == nops), *[zstr(mods[i]) == names[i] for i in range(min(len(mods), nops))]) if len(mods) == nops else z3.BoolVal(False)
            # the operation whose types the module is generated from is the one it is named after
            same_op = z3.And(*[z3.Implies(zstr(t[1]) == names[i], t[2] == bv(i, 32)) for t in toks.items if t[0] == 'module' and len(t) > 2 and t[2] is not None
                               for i in range(nops)])
            claim = z3.And(z3.BoolVal(ok_shape), z3.Or(sel, allops, fallback), same_op)
            what = 'modules generated for other operations than the selected one'
        m = R.prove('operation_selection', o, claim, what)
        if m is not None:
            ev = lambda x: m.eval(x, model_completion=True)
            out.append(dict(kernel='operation_selection', prop='C05', what=what, mode=modes[ev(mode).as_long()], normalization=norms[ev(norm).as_long()],
                            operation_name=ev(want).as_string() if ev(has_want).as_long() == 1 else None, operations=[ev(n).as_string() for n in names],
                            camel=[ev(CAMEL_OF(R, n)).as_string() for n in names], result=('Err' if v.variant == 1 else [str(ev(zstr(t[1]))) for t in v.fields[0].items])))
    R.sample(dict(kernel='operation_selection', operations=nops, paths=len(outs)))
    return out


def k_module_root(R, nops=2):
    """GeneratedModule::root (where it exists): the operation a module's Variables / ResponseData are generated from is the
    operation the module is named after - also when several operation names coincide after normalization."""
    cands_fn = [fn for n, fn in R.L.funcs.items() if n.endswith('::root') and fn.params and 'GeneratedModule' in fn.params[0][1]]
    if not cands_fn:
        R.sample(dict(kernel='module_root', note='no GeneratedModule::root in this tree (the operation id is passed in)'))
        return []
    f = cands_fn[0]
    norms = R.L.enums['Normalization']
    names = [z3.String(f'mr_op{i}') for i in range(nops)]
    norm, k = z3.BitVec('mr_norm', 8), z3.BitVec('mr_k', 32)
    out = []

    def setup(st, B):
        st.pc += [z3.ULT(norm, len(norms)), z3.ULT(k, nops)]
        for i in range(nops):
            for j in range(i + 1, nops):
                st.pc.append(names[i] != names[j])
        ops = [B.struct('ResolvedOperation', name=StrV(n), _operation_type=B.variant('OperationType', 'Query'), selection_set=VecV(()), object_id=B.newtype('ObjectId', bv(0, 32)))
               for n in names]
        q = B.struct('Query', fragments=VecV(()), operations=VecV(ops), selection_parent_idx=B.btreemap([]), selections=VecV(()), variables=VecV(()))
        me = names[-1]
        for i in reversed(range(nops - 1)):
            me = z3.If(k == i, names[i], me)
        opts = options_value(B, normalization=SymEnum(norm, {i: () for i in range(len(norms))}))
        gm = B.struct('GeneratedModule', operation=StrV(me), query_string=StrV('q'), resolved_query=B.cell(q), schema=B.cell(mini_schema(B)), options=B.cell(opts),
                      opt_operation_id=B.newtype('OperationId', k))
        R.vm.push_call(st, f, [B.cell(gm)], None, None)
    outs, _ = R.explore('GeneratedModule::root', setup)
    for o in outs:
        if o.kind != 'return':
            continue
        v = o.value
        if isinstance(v, SymEnum):
            R.inconclusive.append('module_root: symbolic Result')
            continue
        claim = z3.BoolVal(False) if v.variant != 0 else (v.fields[0].fields[0] == k)
        m = R.prove('module_root', o, claim, 'module types come from the operation the module is named after')
        if m is not None:
            ev = lambda x: m.eval(x, model_completion=True)
            out.append(dict(kernel='module_root', prop='C05', what='a module is generated from another operation than the one it is named after',
                            operations=[ev(n).as_string() for n in names], module_of=ev(k).as_long(), normalization=norms[ev(norm).as_long()],
                            result='Err' if v.variant != 0 else str(ev(v.fields[0].fields[0]))))
    R.sample(dict(kernel='module_root', operations=nops, paths=len(outs)))
    return out


def find_const_lit(tokens, name):
    """value token of `const NAME : & str = <value> ;` anywhere in a token tree, or None"""
    items = list(tokens.items)
    for i, t in enumerate(items):
        if t == ('ident', 'const') and i + 6 < len(items) and items[i + 1] == ('ident', name) and items[i + 5] == ('punct', '='):
            return items[i + 6]
        if t[0] == 'group':
            r = find_const_lit(t[2], name)
            if r is not None:
                return r
    return None


def k_generated_module(R):
    """GeneratedModule::to_token_stream with build_impls stubbed: OPERATION_NAME is the unmodified operation name,
    QUERY is the query string, and build_query refers to exactly these constants"""
    import re as _re
    cands_fn = [fn for n, fn in R.L.funcs.items() if n.endswith('::to_token_stream') and fn.params and 'GeneratedModule' in fn.params[0][1]]
    if len(cands_fn) != 1:
        raise V.Unsupported('GeneratedModule::to_token_stream not found')
    f = cands_fn[0]
    modes = R.L.enums['CodegenMode']
    norms = R.L.enums['Normalization']
    op, qtext = z3.String('gm_operation'), z3.String('gm_query_text')
    mode, norm = z3.BitVec('gm_mode', 8), z3.BitVec('gm_norm', 8)
    out = []

    def stub_impls(vm, st, callee, args, dest, ret_bb, m):
        return vm.ret(st, dest, ret_bb, Agg(0, [Tokens([('impls',)])], 'Result'))
    R.vm.overrides = [(_re.compile(r'GeneratedModule::<.*>::build_impls$'), stub_impls)]

    def setup(st, B):
        st.pc += [z3.ULT(mode, len(modes)), z3.ULT(norm, len(norms))]
        opts = B.cell(options_value(B, mode=SymEnum(mode, {i: () for i in range(len(modes))}), normalization=SymEnum(norm, {i: () for i in range(len(norms))})))
        gm = B.struct('GeneratedModule', operation=StrV(op), query_string=StrV(qtext), resolved_query=B.cell(empty_query(B)), schema=B.cell(mini_schema(B)), options=opts,
                      opt_operation_id=B.newtype('OperationId', bv(0, 32)))
        R.vm.push_call(st, f, [B.cell(gm)], None, None)
    outs, _ = R.explore('GeneratedModule::to_token_stream', setup)
    R.vm.overrides = []
    for o in outs:
        if o.kind != 'return':
            if o.kind != 'panic':
                R.inconclusive.append(f'generated_module: {o.kind}: {o.msg}')
            continue
        v = o.value
        if isinstance(v, SymEnum) or v.variant != 0:
            m = R.prove('generated_module', o, z3.BoolVal(False), 'module generation succeeds when the impls do')
            if m is not None:
                out.append(dict(kernel='generated_module', prop='C05', what='module generation failed', operation=m.eval(op, model_completion=True).as_string()))
            continue
        toks = v.fields[0]
        on, qs = find_const_lit(toks, 'OPERATION_NAME'), find_const_lit(toks, 'QUERY')
        claims = {
            'OPERATION_NAME is the unmodified operation name': (zstr(on[1]) == op) if (on and on[0] == 'lit') else z3.BoolVal(False),
            'QUERY is the query text': (zstr(qs[1]) == qtext) if (qs and qs[0] == 'lit') else z3.BoolVal(False),
        }
        text = repr(toks)
        claims['build_query uses QUERY and OPERATION_NAME of the module'] = z3.BoolVal("('ident', 'query'), ('punct', ':')" in text and "('ident', 'operation_name'), ('punct', ':')" in text
                                                                                       and text.count("('ident', 'QUERY')") >= 2 and text.count("('ident', 'OPERATION_NAME')") >= 2)
        m = R.prove('generated_module', o, z3.And(*claims.values()), 'module constants')
        if m is not None:
            failing = [nm for nm, c in claims.items() if not z3.is_true(m.eval(c, model_completion=True))]
            out.append(dict(kernel='generated_module', prop='C05', what=failing[0] if failing else '?', operation=m.eval(op, model_completion=True).as_string(),
                            query=m.eval(qtext, model_completion=True).as_string(), mode=modes[m.eval(mode, model_completion=True).as_long()],
                            normalization=norms[m.eval(norm, model_completion=True).as_long()]))
    R.sample(dict(kernel='generated_module', paths=len(outs)))
    return out


# ---------------------------------------------------------------- C18: #[graphql(...)] attribute scanning (graphql_query_derive)

def tt(B, kind, payload):
    """proc_macro2::TokenTree value"""
    return B.variant('TokenTree', kind, payload)


def attr_tokens(B, entries, trailing_comma):
    """entries: list of ('kv', key, value) | ('flag', key) | ('list', key, [values]); keys / values are z3 strings"""
    items = []
    for i, e in enumerate(entries):
        if i:
            items.append(tt(B, 'Punct', Opaque('punct', ',')))
        items.append(tt(B, 'Ident', Opaque('ident', e[1])))
        if e[0] == 'kv':
            items.append(tt(B, 'Punct', Opaque('punct', '=')))
            items.append(tt(B, 'Literal', Opaque('literal', e[2])))
        elif e[0] == 'list':
            inner = []
            for j, v in enumerate(e[2]):
                if j:
                    inner.append(tt(B, 'Punct', Opaque('punct', ',')))
                inner.append(tt(B, 'Literal', Opaque('literal', v)))
            items.append(tt(B, 'Group', Opaque('group', Tokens(inner))))
    if trailing_comma and entries:
        items.append(tt(B, 'Punct', Opaque('punct', ',')))
    return Tokens(items)


def derive_input(B, tokens, other_attrs_before=1):
    def attribute(name, toks):
        ml = B.struct('syn::MetaList', path=Opaque('synpath', name), delimiter=Opaque('delim'), tokens=toks)
        return B.struct('syn::Attribute', pound_token=Opaque('tok'), style=Opaque('style'), bracket_token=Opaque('tok'), meta=B.variant('Meta', 'List', ml))
    attrs = [attribute('derive', Tokens([]))] * other_attrs_before + [attribute('graphql', tokens), attribute('allow', Tokens([]))]
    return B.struct('syn::DeriveInput', attrs=VecV(attrs), vis=Opaque('vis'), ident=Opaque('ident', 'MyQuery'), generics=Opaque('generics'), data=Opaque('data'))


def k_derive_attributes(R, max_entries):
    """attributes::{extract_attr, extract_attr_list, ident_exists} over every well-formed arrangement of
    `key = "value"`, flag and `key("a", "b")` entries (any order, optional trailing comma), keys and values symbolic"""
    import itertools
    f_attr, f_list, f_flag = R.fn('extract_attr'), R.fn('extract_attr_list'), R.fn('ident_exists')
    out = []
    wanted = z3.String('attr_wanted')
    for n in range(0, max_entries + 1):
        for shape in itertools.product(('kv', 'flag', 'list'), repeat=n):
            for trailing in (False, True):
                if n == 0 and trailing:
                    continue
                keys = [z3.String(f'ak{n}_{i}') for i in range(n)]
                vals = [z3.String(f'av{n}_{i}') for i in range(n)]
                lvals = [[z3.String(f'al{n}_{i}_{j}') for j in range(2)] for i in range(n)]
                entries = []
                for i, kd in enumerate(shape):
                    entries.append(('kv', keys[i], vals[i]) if kd == 'kv' else ('flag', keys[i]) if kd == 'flag' else ('list', keys[i], lvals[i]))
                for fn, what in ((f_attr, 'attr'), (f_list, 'list'), (f_flag, 'flag')):
                    def setup(st, B, entries=entries):
                        for a, b in itertools.combinations(keys, 2):
                            st.pc.append(a != b)                      # keys of one attribute are distinct
                        toks = attr_tokens(B, entries, trailing)
                        R.vm.push_call(st, fn, [B.cell(derive_input(B, toks)), StrV(wanted)], None, None)
                    outs, _ = R.explore(f'attributes::{fn.name.split("::")[-1]}', setup)
                    for o in outs:
                        if o.kind != 'return':
                            if o.kind != 'panic':
                                R.inconclusive.append(f'derive attributes: {o.kind}: {o.msg}')
                            else:
                                m = R.prove('derive_attributes', o, z3.BoolVal(False), 'no panic')
                                if m is not None:
                                    out.append(dict(kernel='derive_attributes', prop='C18', what=f'panic: {o.msg}', shape=shape, trailing_comma=trailing))
                            continue
                        v = o.value
                        if isinstance(v, SymEnum):
                            R.inconclusive.append('derive attributes: symbolic Result')
                            continue
                        if what == 'attr':
                            hits = [z3.And(keys[i] == wanted) for i, kd in enumerate(shape) if kd == 'kv']
                            if v.variant == 0:
                                got = v.fields[0].z()
                                claim = z3.Or(*[z3.And(keys[i] == wanted, vals[i] == got) for i, kd in enumerate(shape) if kd == 'kv']) if hits else z3.BoolVal(False)
                            else:
                                claim = z3.Not(z3.Or(*hits)) if hits else z3.BoolVal(True)
                        elif what == 'list':
                            hits = [keys[i] == wanted for i, kd in enumerate(shape) if kd == 'list']
                            if v.variant == 0:
                                got = v.fields[0].items
                                claim = z3.Or(*[z3.And(keys[i] == wanted, z3.BoolVal(len(got) == 2), *[g.z() == lv for g, lv in zip(got, lvals[i])])
                                                for i, kd in enumerate(shape) if kd == 'list']) if hits else z3.BoolVal(False)
                            else:
                                claim = z3.Not(z3.Or(*hits)) if hits else z3.BoolVal(True)
                        else:
                            present = z3.Or(*[k_ == wanted for k_ in keys]) if keys else z3.BoolVal(False)
                            claim = present if v.variant == 0 else z3.Not(present)
                        m = R.prove('derive_attributes', o, claim, f'{what} {shape} trailing={trailing}')
                        if m is not None:
                            ev = lambda x: m.eval(x, model_completion=True).as_string()
                            out.append(dict(kernel='derive_attributes', prop='C18', what=f'{fn.name.split("::")[-1]} returns the wrong answer', shape=list(shape), trailing_comma=trailing,
                                            wanted=ev(wanted), keys=[ev(k_) for k_ in keys], values=[ev(x) for x in vals], result='Ok' if v.variant == 0 else 'Err'))
    R.sample(dict(kernel='derive_attributes', max_entries=max_entries))
    return out


# ---------------------------------------------------------------- calculate_selection on abstract types (C01, C03, C09, C12)

def k_abstract_selection(R, S, recursive_f1=False):
    """(`recursive_f1`: the fragment F1 spreads itself through a field - every embedding of F1 must then be boxed, C12)
    codegen::selection::render_fragment for a fragment F0 on an interface / union with S selections of symbolic kind
    (`__typename`, leaf field, inline fragment on an object, spread of F1 / F2 whose type conditions are symbolic).
    Claims: the `__typename`-tagged variants are exactly the possible object types, named by their schema names,
    plus `Unknown` iff fragments_other_variant; every selection that targets an object ends up in that object's variant."""
    import summaries as Sm
    f = R.fn('render_fragment')
    out = []
    kinds = R.L.enums['Selection']
    i_field, i_inline, i_spread, i_typename = (kinds.index(x) for x in ('Field', 'InlineFragment', 'FragmentSpread', 'Typename'))
    tk = R.L.enums['TypeId']
    holder = {}
    sk = [z3.BitVec(f'as_k{s}', 8) for s in range(S)]          # kind of selection s
    st_obj = [z3.BitVec(f'as_o{s}', 8) for s in range(S)]      # inline: object index 0/1
    st_fr = [z3.BitVec(f'as_f{s}', 8) for s in range(S)]       # spread: fragment 1/2
    fr_on = [z3.BitVec(f'as_on{k}', 8) for k in (1, 2)]        # F1 / F2: 0 -> O0, 1 -> O1, 2 -> the abstract type itself
    pkind = z3.BitVec('as_parent', 8)                          # 2 interface, 3 union
    other = z3.Bool('as_other_variant')
    norms = R.L.enums['Normalization']
    norm = z3.BitVec('as_norm', 8)
    # one object type whose name a naming convention would change (`o0` -> `O0`) and one it leaves alone
    ON = ABSTRACT_OBJ_NAMES

    def setup(st, B):
        schema, sv = abstract_schema(B, st, 'as_', members=holder['members'], obj_names=ON)
        st.pc.append(z3.ULT(norm, len(norms)))
        # add the leaf field the selections refer to
        tid_s = B.variant('TypeId', 'Scalar', B.newtype('ScalarId', bv(0, 64)))
        leaf = B.struct('StoredField', name=StrV('leaf'), type=B.struct('StoredFieldType', id=tid_s, qualifiers=VecV(())),
                        parent=B.variant('StoredFieldParent', 'Object', B.newtype('ObjectId', bv(0, 32))), deprecation=none())
        names = R.L.structs['Schema']
        fs = list(schema.fields)
        fs[names.index('stored_fields')] = VecV([leaf])
        schema = Agg(None, fs, 'Schema')
        holder['sv'] = sv
        st.pc += [z3.Or(pkind == 2, pkind == 3)]
        for s in range(S):
            st.pc += [z3.Or(sk[s] == i_field, sk[s] == i_inline, sk[s] == i_spread, sk[s] == i_typename), z3.ULT(st_obj[s], 2), z3.Or(st_fr[s] == 1, st_fr[s] == 2)]
            st.pc.append(z3.Implies(pkind == 3, sk[s] != i_field))       # a union has no fields of its own (resolve_union_selection rejects them)
        # `__typename` is selected (validate_typename_presence guarantees it) - put it first
        st.pc.append(sk[0] == i_typename)
        # each named fragment is spread at most once per selection set (duplicate field names otherwise)
        for a in range(S):
            for b_ in range(a + 1, S):
                st.pc.append(z3.Not(z3.And(sk[a] == i_spread, sk[b_] == i_spread, st_fr[a] == st_fr[b_])))
        for k in range(2):
            st.pc.append(z3.ULT(fr_on[k], 3))
        parent_ty = SymEnum(z3.If(pkind == 2, bv(tk.index('Interface'), 8), bv(tk.index('Union'), 8)),
                            {tk.index('Interface'): (B.newtype('InterfaceId', bv(0, 64)),), tk.index('Union'): (B.newtype('UnionId', bv(0, 64)),)})

        def obj_or_parent(code):
            d = z3.If(code == 2, z3.If(pkind == 2, bv(tk.index('Interface'), 8), bv(tk.index('Union'), 8)), bv(tk.index('Object'), 8))
            return SymEnum(d, {tk.index('Object'): (B.newtype('ObjectId', z3.If(code == 1, bv(1, 32), bv(0, 32))),),
                               tk.index('Interface'): (B.newtype('InterfaceId', bv(0, 64)),), tk.index('Union'): (B.newtype('UnionId', bv(0, 64)),)})
        sid = lambda n: B.newtype('SelectionId', bv(n, 32))
        selections, parents, top = [], [], []
        mk_leaf = lambda: B.variant('Selection', 'Field', B.struct('SelectedField', alias=none(), field_id=B.newtype('StoredFieldId', bv(0, 64)), selection_set=VecV(())))
        for s in range(S):
            me = len(selections)
            child = me + 1
            leaf_sel = B.struct('SelectedField', alias=none(), field_id=B.newtype('StoredFieldId', bv(0, 64)), selection_set=VecV(()))
            inline = B.struct('InlineFragment', type_id=B.variant('TypeId', 'Object', B.newtype('ObjectId', z3.If(st_obj[s] == 1, bv(1, 32), bv(0, 32)))), selection_set=VecV([sid(child)]))
            selections.append(SymEnum(sk[s], {i_field: (leaf_sel,), i_inline: (inline,), i_spread: (B.newtype('ResolvedFragmentId', z3.ZeroExt(24, st_fr[s])),), i_typename: ()}))
            parents.append((sid(me), B.variant('SelectionParent', 'Fragment', B.newtype('ResolvedFragmentId', bv(0, 32)))))
            selections.append(mk_leaf())
            parents.append((sid(child), B.variant('SelectionParent', 'InlineFragment', sid(me))))
            top.append(sid(me))
        frags = [B.struct('ResolvedFragment', name=StrV('F0'), on=parent_ty, selection_set=VecV(top))]
        for k in range(2):
            own = VecV(())
            if recursive_f1 and k == 0:
                # F1 { leaf-field { ...F1 } }: two more selections at the end of the arena
                a_ = len(selections)
                selections.append(B.variant('Selection', 'Field', B.struct('SelectedField', alias=none(), field_id=B.newtype('StoredFieldId', bv(0, 64)), selection_set=VecV([sid(a_ + 1)]))))
                parents.append((sid(a_), B.variant('SelectionParent', 'Fragment', B.newtype('ResolvedFragmentId', bv(1, 32)))))
                selections.append(B.variant('Selection', 'FragmentSpread', B.newtype('ResolvedFragmentId', bv(1, 32))))
                parents.append((sid(a_ + 1), B.variant('SelectionParent', 'Field', sid(a_))))
                own = VecV([sid(a_)])
            frags.append(B.struct('ResolvedFragment', name=StrV(f'F{k + 1}'), on=obj_or_parent(fr_on[k]), selection_set=own))
        q = B.struct('Query', fragments=VecV(frags), operations=VecV(()), selection_parent_idx=B.btreemap(parents), selections=VecV(selections), variables=VecV(()))
        bq = B.cell(B.struct('BoundQuery', query=B.cell(q), schema=B.cell(schema)))
        opts = B.cell(options_value(B, fragments_other_variant=other, normalization=SymEnum(norm, {i: () for i in range(len(norms))})))
        R.vm.push_call(st, f, [B.newtype('ResolvedFragmentId', bv(0, 32)), opts, bq], None, None)
    all_outs = []
    for members in (([True, True],) if recursive_f1 else ([True, True], [True, False], [False, True])):
        holder['members'] = members
        outs_m, _ = R.explore(f'render_fragment on abstract type ({S} selections{", F1 recursive" if recursive_f1 else ""})', setup)
        all_outs += [(o_, holder['sv']) for o_ in outs_m]
    ES = R.L.structs.get('ExpandedSelection')
    EV, EF, TA = R.L.structs.get('ExpandedVariant'), R.L.structs.get('ExpandedField'), R.L.structs.get('TypeAlias')
    menv = dict(recursive_f1=recursive_f1, norm=norm, norms=norms, sk=sk, st_obj=st_obj, st_fr=st_fr, fr_on=fr_on, pkind=pkind, other=other, S=S, i_field=i_field, i_inline=i_inline, i_spread=i_spread, i_typename=i_typename)
    for o, sv in all_outs:
        if o.kind != 'return':
            if o.kind == 'panic':
                m = R.prove('abstract_selection', o, z3.BoolVal(False), 'no panic on a valid selection')
                if m is not None:
                    out.append(dict(kernel='abstract_selection', prop='C01', what=f'panic: {o.msg}', model=abstract_model(m, dict(menv, sv=sv))))
            elif o.kind != 'limit':
                R.inconclusive.append(f'abstract_selection: {o.kind}: {o.msg}')
            continue
        es = o.value
        vm_ = R.vm
        variants = es.fields[ES.index('variants')].items
        fields = es.fields[ES.index('fields')].items
        aliases = es.fields[ES.index('aliases')].items
        types = es.fields[ES.index('types')].items

        def sname(v):
            return Sm.as_str(vm_, o.state, v)
        root_variants = [v for v in variants if z3.is_true(simp(v.fields[EV.index('on')].fields[0] == bv(0, 32)))]
        claims = {}
        poss = [z3.If(pkind == 2, sv['impl'][ob], sv['memb'][ob]) for ob in range(2)]
        # variants: exactly the possible types (by schema name) + Unknown iff the option
        for ob in range(2):
            n_named = sum(1 for v in root_variants if sname(v.fields[EV.index('name')]).s == ON[ob])
            claims[f'C03:variant-for-O{ob}'] = z3.If(poss[ob], z3.BoolVal(n_named == 1), z3.BoolVal(n_named == 0))
        n_unknown = sum(1 for v in root_variants if sname(v.fields[EV.index('name')]).s == 'Unknown')
        claims['C03:unknown-variant'] = z3.If(other, z3.BoolVal(n_unknown == 1), z3.BoolVal(n_unknown == 0))
        known_names = set(ON) | {'Unknown'}
        claims['C09:variant-names-are-schema-names'] = z3.BoolVal(all(isinstance(sname(v.fields[EV.index('name')]).s, str) and sname(v.fields[EV.index('name')]).s in known_names for v in root_variants))
        for v in root_variants:
            if sname(v.fields[EV.index('name')]).s == 'Unknown':
                claims['C03:unknown-is-default'] = v.fields[EV.index('is_default_variant')]
        # per object: what the selections put into its variant
        for ob in range(2):
            targets_inline = [z3.And(sk[s] == i_inline, st_obj[s] == ob) for s in range(S)]
            targets_spread = [z3.And(sk[s] == i_spread, z3.Or(*[z3.And(st_fr[s] == k + 1, fr_on[k] == ob) for k in range(2)])) for s in range(S)]
            n_inline = z3.Sum([z3.If(c, 1, 0) for c in targets_inline])
            n_spread = z3.Sum([z3.If(c, 1, 0) for c in targets_spread])
            vs = [v for v in root_variants if sname(v.fields[EV.index('name')]).s == ON[ob]]
            if not vs:
                continue
            vt = vs[0].fields[EV.index('variant_type')]
            has_type = (vt.variant == 1) if isinstance(vt, Agg) else None
            if has_type is None:
                continue
            claims[f'C01:O{ob}-payload-iff-selected'] = z3.Implies(poss[ob], z3.BoolVal(has_type) == (n_inline + n_spread > 0))
            if has_type:
                tname = sname(vt.fields[0])
                # struct id of that variant type
                sids = [i for i, t_ in enumerate(types) if str_same(sname(t_.fields[0]), tname)]
                if len(sids) != 1:
                    claims[f'C01:O{ob}-type-defined-once'] = z3.BoolVal(False)
                    continue
                sid_ = sids[0]
                al = [a for a in aliases if z3.is_true(simp(a.fields[TA.index('struct_id')].fields[0] == bv(sid_, 32)))]
                fl = [x for x in fields if z3.is_true(simp(x.fields[EF.index('struct_id')].fields[0] == bv(sid_, 32)))]
                n_flat = sum(1 for x in fl if z3.is_true(simp(x.fields[EF.index('flatten')])))
                n_plain = len(fl) - n_flat
                if recursive_f1:
                    # every embedding of the recursive fragment F1 is boxed, and nothing else is
                    for x in fl:
                        if z3.is_true(simp(x.fields[EF.index('flatten')])):
                            is_f1 = sname(x.fields[EF.index('field_type')]).s == 'F1'
                            claims[f'C12:O{ob}-flattened-{sname(x.fields[EF.index("field_type")]).s}-boxed-iff-recursive'] = x.fields[EF.index('boxed')] == z3.BoolVal(is_f1)
                    for a in al:
                        is_f1 = sname(a.fields[TA.index('name')]).s == 'F1'
                        claims[f'C12:O{ob}-alias-{sname(a.fields[TA.index("name")]).s}-boxed-iff-recursive'] = a.fields[TA.index('boxed')] == z3.BoolVal(is_f1)
                if al:
                    # aliasing the variant to one fragment is only right when that spread is the whole selection on the object
                    claims[f'C01:O{ob}-alias-only-for-single-spread'] = z3.Implies(poss[ob], z3.And(n_spread == 1, n_inline == 0))
                else:
                    claims[f'C01:O{ob}-every-spread-kept'] = z3.Implies(poss[ob], n_spread == n_flat)
                    claims[f'C01:O{ob}-inline-fields-kept'] = z3.Implies(poss[ob], n_inline == n_plain)
        m = R.prove('abstract_selection', o, z3.And(*claims.values()), 'variants of an abstract selection')
        if m is not None:
            failing = [nm for nm, c in claims.items() if not z3.is_true(m.eval(c, model_completion=True))]
            mdl = abstract_model(m, dict(menv, sv=sv))
            vdesc = [(str(sname(v.fields[EV.index('name')]).s)[:40], repr(v.fields[EV.index('variant_type')])[:60]) for v in root_variants]
            # one candidate per property that has a failing claim in this model (C01 / C03 / C09 share the kernel)
            per_prop = {}
            for nm in failing or ['C01:?']:
                per_prop.setdefault(nm.split(':')[0], nm)
            for pr, nm in per_prop.items():
                out.append(dict(kernel='abstract_selection', prop=pr, what=nm, model=mdl, variants=vdesc))
    R.sample(dict(kernel='abstract_selection', selections=S, paths=len(all_outs)))
    return out


def k_object_selection(R, S):
    """codegen::selection::render_fragment for a fragment F0 on the *object* type o0 with S selections of symbolic kind:
    `__typename`, the leaf field, an inline fragment whose type condition is o0 itself / an interface o0 implements / a
    union o0 belongs to, or a spread of F1 / F2 defined on one of those types.  All of these are valid GraphQL and apply
    to every o0 value, so (C01) the struct for F0 must carry the inline fragment's fields and one flattened field per
    spread."""
    import summaries as Sm
    f = R.fn('render_fragment')
    out = []
    kinds = R.L.enums['Selection']
    i_field, i_inline, i_spread, i_typename = (kinds.index(x) for x in ('Field', 'InlineFragment', 'FragmentSpread', 'Typename'))
    tk = R.L.enums['TypeId']
    holder = {}
    sk = [z3.BitVec(f'os_k{s}', 8) for s in range(S)]
    cond = [z3.BitVec(f'os_c{s}', 8) for s in range(S)]        # inline fragment: 0 -> o0, 2 -> I0, 3 -> U0
    st_fr = [z3.BitVec(f'os_f{s}', 8) for s in range(S)]       # spread: fragment 1 / 2
    fr_on = [z3.BitVec(f'os_on{k}', 8) for k in (1, 2)]        # F1 / F2: 0 -> o0, 2 -> I0, 3 -> U0
    # what the inline fragment contains: 0 -> the leaf field, 1 -> a nested inline fragment `... on o0 { leaf }`,
    # 2 -> a spread of F1 / F2 (that fragment is then not spread at the top level)
    dep = [z3.BitVec(f'os_dep{i}', 8) for i in range(2)]       # deprecation of the schema fields `leaf`, `sub`
    strategies = R.L.enums['DeprecationStrategy']
    strat, has_strat = z3.BitVec('os_strat', 8), z3.BitVec('os_hasstrat', 8)
    ck = [z3.BitVec(f'os_ck{s}', 8) for s in range(S)]
    cfr = [z3.BitVec(f'os_cf{s}', 8) for s in range(S)]
    ON = ABSTRACT_OBJ_NAMES

    def ty_of(code, B):
        d = z3.If(code == 2, bv(tk.index('Interface'), 8), z3.If(code == 3, bv(tk.index('Union'), 8), bv(tk.index('Object'), 8)))
        return SymEnum(d, {tk.index('Object'): (B.newtype('ObjectId', bv(0, 32)),), tk.index('Interface'): (B.newtype('InterfaceId', bv(0, 64)),),
                           tk.index('Union'): (B.newtype('UnionId', bv(0, 64)),)})

    def setup(st, B):
        schema, sv = abstract_schema(B, st, 'os_', members=[True, True], obj_names=ON)
        tid_s = B.variant('TypeId', 'Scalar', B.newtype('ScalarId', bv(0, 64)))
        depv = lambda i: SymEnum(dep[i], {0: (), 1: (SymEnum(bv(1, 8), {0: (), 1: (StrV('why'),)}),)})
        leaf = B.struct('StoredField', name=StrV('leaf'), type=B.struct('StoredFieldType', id=tid_s, qualifiers=VecV(())),
                        parent=B.variant('StoredFieldParent', 'Object', B.newtype('ObjectId', bv(0, 32))), deprecation=depv(0))
        sub = B.struct('StoredField', name=StrV('sub'), type=B.struct('StoredFieldType', id=B.variant('TypeId', 'Object', B.newtype('ObjectId', bv(1, 32))), qualifiers=VecV(())),
                       parent=B.variant('StoredFieldParent', 'Object', B.newtype('ObjectId', bv(0, 32))), deprecation=depv(1))
        names = R.L.structs['Schema']
        fs = list(schema.fields)
        fs[names.index('stored_fields')] = VecV([leaf, sub])
        schema = Agg(None, fs, 'Schema')
        holder['sv'] = sv
        st.pc += [z3.ULT(dep[0], 2), z3.ULT(dep[1], 2), z3.ULT(has_strat, 2), z3.ULT(strat, len(strategies))]
        if holder['composite_first']:
            st.pc.append(sk[0] == i_field)
        applies = lambda code: z3.Or(code == 0, z3.And(code == 2, sv['impl'][0]), code == 3)     # o0 is a member of U0 in this scenario
        for s in range(S):
            st.pc += [z3.Or(sk[s] == i_field, sk[s] == i_inline, sk[s] == i_spread, sk[s] == i_typename), z3.Or(st_fr[s] == 1, st_fr[s] == 2)]
            st.pc += [z3.ULT(ck[s], 3), z3.Or(cfr[s] == 1, cfr[s] == 2)]
            st.pc.append(z3.Implies(z3.And(sk[s] == i_inline, ck[s] == 2), z3.And(*[z3.Implies(cfr[s] == k + 1, applies(fr_on[k])) for k in range(2)])))
            st.pc.append(z3.Implies(sk[s] == i_inline, applies(cond[s])))
            st.pc.append(z3.Implies(z3.And(sk[s] == i_inline, cond[s] == 3), ck[s] != 0))      # a union has no fields of its own
            st.pc.append(z3.Implies(sk[s] == i_spread, z3.And(*[z3.Implies(st_fr[s] == k + 1, applies(fr_on[k])) for k in range(2)])))
        # the response key `leaf` is produced by at most one selection (merging of equal keys is not what is claimed here)
        st.pc.append(z3.Sum([z3.If(z3.Or(sk[s] == i_field, z3.And(sk[s] == i_inline, ck[s] != 2)), 1, 0)
                             for s in range(S) if not (s == 0 and holder['composite_first'])]) <= 1)
        # each named fragment is spread at most once (top level or inside an inline fragment)
        spread_of = lambda s_, k: z3.Or(z3.And(sk[s_] == i_spread, st_fr[s_] == k), z3.And(sk[s_] == i_inline, ck[s_] == 2, cfr[s_] == k))
        for k in (1, 2):
            st.pc.append(z3.Sum([z3.If(spread_of(s_, k), 1, 0) for s_ in range(S)]) <= 1)
        for k in range(2):
            st.pc.append(z3.Or(fr_on[k] == 0, fr_on[k] == 2, fr_on[k] == 3))
        sid = lambda n: B.newtype('SelectionId', bv(n, 32))
        selections, parents, top = [], [], []
        mk_leaf = lambda: B.variant('Selection', 'Field', B.struct('SelectedField', alias=none(), field_id=B.newtype('StoredFieldId', bv(0, 64)), selection_set=VecV(())))
        for s in range(S):
            me = len(selections)
            child, grandchild = me + 1, me + 2
            leaf_sel = B.struct('SelectedField', alias=none(), field_id=B.newtype('StoredFieldId', bv(0, 64)), selection_set=VecV(()))
            inline = B.struct('InlineFragment', type_id=ty_of(cond[s], B), selection_set=VecV([sid(child)]))
            if s == 0 and holder['composite_first']:
                # slot 0 is the composite field `sub { leaf }` (its sub-selection is the grandchild slot, a plain leaf of O1)
                leaf_sel = B.struct('SelectedField', alias=none(), field_id=B.newtype('StoredFieldId', bv(1, 64)), selection_set=VecV([sid(grandchild)]))
            selections.append(SymEnum(sk[s], {i_field: (leaf_sel,), i_inline: (inline,), i_spread: (B.newtype('ResolvedFragmentId', z3.ZeroExt(24, st_fr[s])),), i_typename: ()}))
            parents.append((sid(me), B.variant('SelectionParent', 'Fragment', B.newtype('ResolvedFragmentId', bv(0, 32)))))
            nested = B.struct('InlineFragment', type_id=B.variant('TypeId', 'Object', B.newtype('ObjectId', bv(0, 32))), selection_set=VecV([sid(grandchild)]))
            child_kind = z3.If(ck[s] == 0, bv(i_field, 8), z3.If(ck[s] == 1, bv(i_inline, 8), bv(i_spread, 8)))
            selections.append(SymEnum(child_kind, {i_field: (leaf_sel,), i_inline: (nested,), i_spread: (B.newtype('ResolvedFragmentId', z3.ZeroExt(24, cfr[s])),)}))
            parents.append((sid(child), B.variant('SelectionParent', 'InlineFragment', sid(me))))
            selections.append(mk_leaf())
            parents.append((sid(grandchild), B.variant('SelectionParent', 'Field', sid(me)) if (s == 0 and holder['composite_first']) else B.variant('SelectionParent', 'InlineFragment', sid(child))))
            top.append(sid(me))
        frags = [B.struct('ResolvedFragment', name=StrV('F0'), on=B.variant('TypeId', 'Object', B.newtype('ObjectId', bv(0, 32))), selection_set=VecV(top))]
        for k in range(2):
            frags.append(B.struct('ResolvedFragment', name=StrV(f'F{k + 1}'), on=ty_of(fr_on[k], B), selection_set=VecV(())))
        q = B.struct('Query', fragments=VecV(frags), operations=VecV(()), selection_parent_idx=B.btreemap(parents), selections=VecV(selections), variables=VecV(()))
        bq = B.cell(B.struct('BoundQuery', query=B.cell(q), schema=B.cell(schema)))
        opts = B.cell(options_value(B, deprecation_strategy=SymEnum(has_strat, {0: (), 1: (SymEnum(strat, {i: () for i in range(len(strategies))}),)})))
        R.vm.push_call(st, f, [B.newtype('ResolvedFragmentId', bv(0, 32)), opts, bq], None, None)
    outs = []
    for composite_first in (False, True):
        holder['composite_first'] = composite_first
        o_, _ = R.explore(f'render_fragment on an object type ({S} selections{", composite field first" if composite_first else ""})', setup)
        outs += [(x, composite_first) for x in o_]
    sv = holder.get('sv')
    ES = R.L.structs.get('ExpandedSelection')
    EF, TA = R.L.structs.get('ExpandedField'), R.L.structs.get('TypeAlias')
    names_ = {0: ON[0], 2: 'I0', 3: 'U0'}

    def model_of(m, composite_first=False):
        ev = lambda x: m.eval(x, model_completion=True)
        sels = []
        for s in range(S):
            k = ev(sk[s]).as_long()
            if s == 0 and composite_first:
                sels.append('sub { leaf }')
                continue
            inner = ['leaf', f'... on {ON[0]} {{ leaf }}', f'...F{ev(cfr[s]).as_long()}'][ev(ck[s]).as_long()]
            sels.append('__typename' if k == i_typename else 'leaf' if k == i_field else f'... on {names_[ev(cond[s]).as_long()]} {{ {inner} }}' if k == i_inline else f'...F{ev(st_fr[s]).as_long()}')
        return dict(parent='object', selections=sels, F1_on=names_[ev(fr_on[0]).as_long()], F2_on=names_[ev(fr_on[1]).as_long()],
                    implements=[z3.is_true(ev(x)) for x in sv['impl']], members=[True, True], obj_names=list(ON),
                    deprecated=[n_ for n_, d_ in zip(('leaf', 'sub'), dep) if ev(d_).as_long() == 1],
                    strategy=(strategies[ev(strat).as_long()] if ev(has_strat).as_long() == 1 else None))
    for o, composite_first in outs:
        if o.kind != 'return':
            if o.kind == 'panic':
                m = R.prove('object_selection', o, z3.BoolVal(False), 'no panic on a valid selection')
                if m is not None:
                    out.append(dict(kernel='object_selection', prop='C01', what=f'panic: {o.msg}', model=model_of(m, composite_first)))
            elif o.kind != 'limit':
                R.inconclusive.append(f'object_selection: {o.kind}: {o.msg}')
            continue
        es = o.value
        fields = es.fields[ES.index('fields')].items
        aliases = es.fields[ES.index('aliases')].items
        fl = [x for x in fields if z3.is_true(simp(x.fields[EF.index('struct_id')].fields[0] == bv(0, 32)))]
        al = [a for a in aliases if z3.is_true(simp(a.fields[TA.index('struct_id')].fields[0] == bv(0, 32)))]
        n_flat = sum(1 for x in fl if z3.is_true(simp(x.fields[EF.index('flatten')])))
        n_plain = len(fl) - n_flat
        i_deny = strategies.index('Deny')
        denied = lambda i: z3.And(has_strat == 1, strat == i_deny, dep[i] == 1)      # a deprecated field under `deny` may be left out
        prod = []       # (produces a plain field, may be dropped)
        for s in range(S):
            if s == 0 and composite_first:
                prod.append((z3.BoolVal(True), denied(1)))
            else:
                prod.append((z3.Or(sk[s] == i_field, z3.And(sk[s] == i_inline, ck[s] != 2)), denied(0)))
        n_leaf = z3.Sum([z3.If(c_, 1, 0) for c_, _ in prod])
        n_required = z3.Sum([z3.If(z3.And(c_, z3.Not(d_)), 1, 0) for c_, d_ in prod])
        n_inline = z3.Sum([z3.If(sk[s] == i_inline, 1, 0) for s in range(S) if not (s == 0 and composite_first)])
        n_spread = z3.Sum([z3.If(z3.Or(sk[s] == i_spread, z3.And(sk[s] == i_inline, ck[s] == 2)), 1, 0) for s in range(S) if not (s == 0 and composite_first)])
        claims = {}
        if al:
            claims['C01:object-alias-only-for-single-spread'] = z3.And(n_spread == 1, n_leaf == 0, n_inline == 0)
        else:
            kept = z3.And(n_plain >= n_required, n_plain <= n_leaf)
            claims['C01:object-parent-inline-fragment-fields-kept'] = z3.Implies(n_inline > 0, kept)
            claims['C01:object-parent-every-spread-kept'] = n_spread == n_flat
            claims['C01:object-parent-fields-kept'] = z3.Implies(n_inline == 0, kept)
        m = R.prove('object_selection', o, z3.And(*claims.values()), 'fields of an object selection')
        if m is not None:
            failing = [nm for nm, c in claims.items() if not z3.is_true(m.eval(c, model_completion=True))]
            mdl = model_of(m, composite_first)
            for nm in failing[:2] or ['C01:?']:
                out.append(dict(kernel='object_selection', prop='C01', what=nm, model=mdl, struct_fields=[repr(x)[:80] for x in fl][:4]))
            if mdl['strategy'] == 'Deny' and mdl['deprecated']:
                # under `deny` exactly the deprecated fields may be missing from the generated struct (C14)
                out.append(dict(kernel='object_selection', prop='C14', what='C14:deny-drops-a-field-that-is-not-deprecated', model=mdl))
    R.sample(dict(kernel='object_selection', selections=S, paths=len(outs)))
    return out


def str_same(a, b):
    if isinstance(a.s, str) and isinstance(b.s, str):
        return a.s == b.s
    return z3.is_true(simp(a.z() == b.z()))


ABSTRACT_OBJ_NAMES = ('o0', 'O1')


def abstract_model(m, env):
    ev = lambda x: m.eval(x, model_completion=True)
    S = env['S']
    sels = []
    for s in range(S):
        k = ev(env['sk'][s]).as_long()
        if k == env['i_typename']:
            sels.append('__typename')
        elif k == env['i_field']:
            sels.append('leaf')
        elif k == env['i_inline']:
            sels.append(f"... on O{ev(env['st_obj'][s]).as_long()} {{ leaf }}")
        else:
            sels.append(f"...F{ev(env['st_fr'][s]).as_long()}")
    on = lambda c: ['O0', 'O1', 'PARENT'][ev(c).as_long()]
    return dict(parent='interface' if ev(env['pkind']).as_long() == 2 else 'union', selections=sels, F1_on=on(env['fr_on'][0]), F2_on=on(env['fr_on'][1]),
                implements=[z3.is_true(ev(x)) for x in env['sv']['impl']], members=[z3.is_true(ev(x)) for x in env['sv']['memb']],
                fragments_other_variant=z3.is_true(ev(env['other'])), obj_names=list(ABSTRACT_OBJ_NAMES), recursive_f1=bool(env.get('recursive_f1')),
                normalization=env['norms'][ev(env['norm']).as_long()] if 'norm' in env else 'None')


# ---------------------------------------------------------------- C06: query::resolve end to end on document templates

def k_resolve_document(R):
    """`query::resolve(schema, document)` on the template
         query Q { a { __typename ...F } b { __typename ...F } }   fragment F on T { __typename }
    where the types of `a`, `b` and the type named T are symbolic composites (two objects, an interface, a union with
    symbolic implements / membership).  Ok => every spread site can apply.  This covers the *driver* (which selections
    get validated), not only the validator."""
    f = R.fn('resolve', contains=None) if False else None
    cands_fn = [fn for n, fn in R.L.funcs.items() if (n == 'resolve' or n.endswith('::resolve')) and len(fn.params) == 2 and 'Schema' in fn.params[0][1]]
    if len(cands_fn) != 1:
        raise V.Unsupported(f'query::resolve not found ({[x.name for x in cands_fn]})')
    f = cands_fn[0]
    out = []
    holder = {}

    def setup(st, B):
        schema0, sv = abstract_schema(B, st, 'rd_')
        pa, ca = sym_composite(B, st, 'rd_a')
        pb, cb = sym_composite(B, st, 'rd_b')
        ts, ct = sym_composite(B, st, 'rd_t')
        holder.update(sv=sv, ca=ca, cb=cb, ct=ct)
        names = R.L.structs['Schema']
        fs = list(schema0.fields)
        scal = B.variant('TypeId', 'Scalar', B.newtype('ScalarId', bv(0, 64)))
        mkf = lambda nm, ty, parent: B.struct('StoredField', name=StrV(nm), type=B.struct('StoredFieldType', id=ty, qualifiers=VecV(())), parent=parent, deprecation=none())
        pq = B.variant('StoredFieldParent', 'Object', B.newtype('ObjectId', bv(2, 32)))
        fields = [mkf('a', pa, pq), mkf('b', pb, pq)]
        fs[names.index('stored_fields')] = VecV(fields)
        objs = list(fs[names.index('stored_objects')].items)
        objs.append(B.struct('StoredObject', name=StrV('Query'), fields=VecV([B.newtype('StoredFieldId', bv(0, 64)), B.newtype('StoredFieldId', bv(1, 64))]), implements_interfaces=VecV(())))
        fs[names.index('stored_objects')] = VecV(objs)
        fs[names.index('names')] = B.btreemap([(StrV('T'), ts)])
        fs[names.index('query_type')] = some(B.newtype('ObjectId', bv(2, 32)))
        schema = Agg(None, fs, 'Schema')
        pos = Agg(None, [bv(0, 64), bv(0, 64)])
        sset = lambda items: B.struct('query::SelectionSet', span=Agg(None, [pos, pos]), items=VecV(items))
        fld = lambda name, items: B.variant('query::Selection', 'Field', B.struct('query::Field', position=pos, alias=none(), name=StrV(name), arguments=VecV(()), directives=VecV(()), selection_set=sset(items)))
        spread = lambda name: B.variant('query::Selection', 'FragmentSpread', B.struct('query::FragmentSpread', position=pos, fragment_name=StrV(name), directives=VecV(())))
        op = B.variant('query::Definition', 'Operation', B.variant('query::OperationDefinition', 'Query',
                       B.struct('query::Query', position=pos, name=some(StrV('Q')), variable_definitions=VecV(()), directives=VecV(()),
                                selection_set=sset([fld('a', [fld('__typename', []), spread('F')]), fld('b', [fld('__typename', []), spread('F')])]))))
        frag = B.variant('query::Definition', 'Fragment', B.struct('query::FragmentDefinition', position=pos, name=StrV('F'), type_condition=B.variant('query::TypeCondition', 'On', StrV('T')),
                                                                  directives=VecV(()), selection_set=sset([fld('__typename', [])])))
        doc = B.struct('query::Document', definitions=VecV([op, frag]))
        R.vm.push_call(st, f, [B.cell(schema), B.cell(doc)], None, None)
    outs, _ = R.explore('query::resolve(template)', setup)
    sv, ca, cb, ct = holder.get('sv'), holder.get('ca'), holder.get('cb'), holder.get('ct')
    names = ['O0', 'O1', 'I0', 'U0']
    for o in outs:
        if o.kind != 'return':
            if o.kind not in ('panic',):
                R.inconclusive.append(f'resolve: {o.kind}: {o.msg}')
            continue
        v = o.value
        if isinstance(v, SymEnum):
            R.inconclusive.append('resolve: symbolic Result')
            continue
        if v.variant == 0:
            ok_a = z3.Or(ca == ct, *[z3.And(possible(ca, ob, sv), possible(ct, ob, sv)) for ob in range(2)])
            ok_b = z3.Or(cb == ct, *[z3.And(possible(cb, ob, sv), possible(ct, ob, sv)) for ob in range(2)])
            m = R.prove('resolve_document', o, z3.And(ok_a, ok_b), 'every spread site can apply')
            if m is not None:
                ev = lambda x: m.eval(x, model_completion=True)
                out.append(dict(kernel='resolve_document', prop='C06', what='a document with a spread that can never apply at one of its sites is accepted',
                                a=names[ev(ca).as_long()], b=names[ev(cb).as_long()], fragment_on=names[ev(ct).as_long()],
                                implements=[z3.is_true(ev(x)) for x in sv['impl']], members=[z3.is_true(ev(x)) for x in sv['memb']]))
        else:
            R.obligations += 1
            R.discharged += 1
    R.sample(dict(kernel='resolve_document', paths=len(outs)))
    return out


def k_resolve_selection_sets(R, S=2):
    """`query::resolve` on   query Q { a { s_1 .. s_S } }   fragment F on T { f }
    where a's type and T are symbolic composites, every s_i is symbolically a field (free name), a spread (free fragment
    name) or an inline fragment (free type name) with `{ __typename }`, and f is a field with a free name.
    Ok => the document is valid by the rule catalogue (fields exist, fragments / types are defined, conditions can apply,
    `__typename` is selected on abstract types)."""
    cands_fn = [fn for n, fn in R.L.funcs.items() if (n == 'resolve' or n.endswith('::resolve')) and len(fn.params) == 2 and 'Schema' in fn.params[0][1]]
    if len(cands_fn) != 1:
        raise V.Unsupported('query::resolve not found')
    f = cands_fn[0]
    out = []
    holder = {}
    sk = [z3.BitVec(f'rs_k{i}', 8) for i in range(S)]            # 0 field, 1 spread, 2 inline
    nm = [z3.String(f'rs_n{i}') for i in range(S)]              # field / fragment / type name of selection i
    nf = z3.String('rs_nf')                                     # the field selected inside F

    def setup(st, B):
        schema0, sv = abstract_schema(B, st, 'rs_')
        pa, ca = sym_composite(B, st, 'rs_a')
        ts, ct = sym_composite(B, st, 'rs_t')
        holder.update(sv=sv, ca=ca, ct=ct)
        for k_ in sk:
            st.pc.append(z3.ULT(k_, 3))
        names = R.L.structs['Schema']
        fs = list(schema0.fields)
        scal = B.variant('TypeId', 'Scalar', B.newtype('ScalarId', bv(0, 64)))
        mkf = lambda nm_, ty, parent: B.struct('StoredField', name=StrV(nm_), type=B.struct('StoredFieldType', id=ty, qualifiers=VecV(())), parent=parent, deprecation=none())
        po = lambda i: B.variant('StoredFieldParent', 'Object', B.newtype('ObjectId', bv(i, 32)))
        pi = B.variant('StoredFieldParent', 'Interface', B.newtype('InterfaceId', bv(0, 64)))
        fields = [mkf('a', pa, po(2)), mkf('x', scal, po(0)), mkf('x', scal, po(1)), mkf('x', scal, pi)]
        fs[names.index('stored_fields')] = VecV(fields)
        fid = lambda i: B.newtype('StoredFieldId', bv(i, 64))
        objs = []
        for i, ob in enumerate(fs[names.index('stored_objects')].items):
            so = R.L.structs['StoredObject']
            of = list(ob.fields)
            of[so.index('fields')] = VecV([fid(1 + i)])
            objs.append(Agg(None, of, 'StoredObject'))
        objs.append(B.struct('StoredObject', name=StrV('Query'), fields=VecV([fid(0)]), implements_interfaces=VecV(())))
        fs[names.index('stored_objects')] = VecV(objs)
        iface = fs[names.index('stored_interfaces')].items[0]
        si = R.L.structs['StoredInterface']
        ifl = list(iface.fields)
        ifl[si.index('fields')] = VecV([fid(3)])
        fs[names.index('stored_interfaces')] = VecV([Agg(None, ifl, 'StoredInterface')])
        tk = R.L.enums['TypeId']
        fs[names.index('names')] = B.btreemap([(StrV('T'), ts), (StrV('O0'), B.variant('TypeId', 'Object', B.newtype('ObjectId', bv(0, 32)))),
                                               (StrV('O1'), B.variant('TypeId', 'Object', B.newtype('ObjectId', bv(1, 32)))),
                                               (StrV('I0'), B.variant('TypeId', 'Interface', B.newtype('InterfaceId', bv(0, 64)))),
                                               (StrV('U0'), B.variant('TypeId', 'Union', B.newtype('UnionId', bv(0, 64))))])
        fs[names.index('query_type')] = some(B.newtype('ObjectId', bv(2, 32)))
        schema = Agg(None, fs, 'Schema')
        pos = Agg(None, [bv(0, 64), bv(0, 64)])
        sset = lambda items: B.struct('query::SelectionSet', span=Agg(None, [pos, pos]), items=VecV(items))
        field_v = lambda name, items: B.struct('query::Field', position=pos, alias=none(), name=name, arguments=VecV(()), directives=VecV(()), selection_set=sset(items))
        psel = R.L.enums['query::Selection']
        tn_field = Agg(psel.index('Field'), [field_v(StrV('__typename'), [])], 'query::Selection')
        sels = []
        for i in range(S):
            spread_v = B.struct('query::FragmentSpread', position=pos, fragment_name=StrV(nm[i]), directives=VecV(()))
            inline_v = B.struct('query::InlineFragment', position=pos, type_condition=some(B.variant('query::TypeCondition', 'On', StrV(nm[i]))), directives=VecV(()),
                                selection_set=sset([tn_field]))
            d = z3.If(sk[i] == 0, bv(psel.index('Field'), 8), z3.If(sk[i] == 1, bv(psel.index('FragmentSpread'), 8), bv(psel.index('InlineFragment'), 8)))
            sels.append(SymEnum(d, {psel.index('Field'): (field_v(StrV(nm[i]), []),), psel.index('FragmentSpread'): (spread_v,), psel.index('InlineFragment'): (inline_v,)}))
        a_field = Agg(psel.index('Field'), [field_v(StrV('a'), sels)], 'query::Selection')
        op = B.variant('query::Definition', 'Operation', B.variant('query::OperationDefinition', 'Query',
                       B.struct('query::Query', position=pos, name=some(StrV('Q')), variable_definitions=VecV(()), directives=VecV(()), selection_set=sset([a_field]))))
        frag = B.variant('query::Definition', 'Fragment', B.struct('query::FragmentDefinition', position=pos, name=StrV('F'), type_condition=B.variant('query::TypeCondition', 'On', StrV('T')),
                                                                  directives=VecV(()), selection_set=sset([Agg(psel.index('Field'), [field_v(StrV(nf), [])], 'query::Selection')])))
        doc = B.struct('query::Document', definitions=VecV([op, frag]))
        R.vm.push_call(st, f, [B.cell(schema), B.cell(doc)], None, None)
    outs, _ = R.explore(f'query::resolve(selection sets, {S} selections)', setup)
    sv, ca, ct = holder.get('sv'), holder.get('ca'), holder.get('ct')
    names = ['O0', 'O1', 'I0', 'U0']
    S_ = z3.StringVal

    def code_of_name(n):
        """composite code of a type name (or -1)"""
        return z3.If(n == S_('T'), z3.BV2Int(ct), z3.If(n == S_('O0'), 0, z3.If(n == S_('O1'), 1, z3.If(n == S_('I0'), 2, z3.If(n == S_('U0'), 3, -1)))))

    def applicable(pc_, cc_int):
        # parent code (bv) vs condition code (int)
        conds = []
        for cval in range(4):
            cbv = bv(cval, 8)
            conds.append(z3.And(cc_int == cval, z3.Or(pc_ == cbv, *[z3.And(possible(pc_, ob, sv), possible(cbv, ob, sv)) for ob in range(2)])))
        return z3.Or(*conds)
    for o in outs:
        if o.kind != 'return':
            if o.kind not in ('panic',):
                R.inconclusive.append(f'resolve(selection sets): {o.kind}: {o.msg}')
            continue
        v = o.value
        if isinstance(v, SymEnum):
            R.inconclusive.append('resolve(selection sets): symbolic Result')
            continue
        if v.variant != 0:
            R.obligations += 1
            R.discharged += 1
            continue
        tn = S_('__typename')
        a_abstract = z3.UGE(ca, 2)
        t_abstract = z3.UGE(ct, 2)
        valid = []
        for i in range(S):
            field_ok = z3.Or(nm[i] == tn, z3.And(nm[i] == S_('x'), ca != 3))
            spread_ok = z3.And(nm[i] == S_('F'), applicable(ca, z3.BV2Int(ct)))
            cc = code_of_name(nm[i])
            inline_ok = z3.And(cc >= 0, applicable(ca, cc))
            valid.append(z3.If(sk[i] == 0, field_ok, z3.If(sk[i] == 1, spread_ok, inline_ok)))
        f_has_tn = nf == tn
        valid.append(z3.Or(f_has_tn, z3.And(nf == S_('x'), ct != 3)))                      # F's own field exists on T
        valid.append(z3.Implies(t_abstract, f_has_tn))                                    # abstract fragment selects __typename
        has_tn = z3.Or(*[z3.Or(z3.And(sk[i] == 0, nm[i] == tn), z3.And(sk[i] == 1, nm[i] == S_('F'), ct == ca, f_has_tn)) for i in range(S)])
        valid.append(z3.Implies(a_abstract, has_tn))
        m = R.prove('resolve_selection_sets', o, z3.And(*valid), 'accepted document is valid')
        if m is not None:
            ev = lambda x: m.eval(x, model_completion=True)
            sels = []
            for i in range(S):
                k_ = ev(sk[i]).as_long()
                n_ = ev(nm[i]).as_string()
                sels.append(n_ if k_ == 0 else ('...' + n_ if k_ == 1 else f'... on {n_} {{ __typename }}'))
            failing = [j for j, c in enumerate(valid) if not z3.is_true(ev(c))]
            out.append(dict(kernel='resolve_selection_sets', prop='C06', what='an invalid document is accepted', a=names[ev(ca).as_long()], fragment_on=names[ev(ct).as_long()],
                            selections=sels, fragment_field=ev(nf).as_string(), implements=[z3.is_true(ev(x)) for x in sv['impl']], members=[z3.is_true(ev(x)) for x in sv['memb']],
                            failing_rule=failing))
    R.sample(dict(kernel='resolve_selection_sets', selections=S, paths=len(outs)))
    return out


# ---------------------------------------------------------------- C15: Display of graphql_client::Error (format machinery modelled)

def fmt_overrides(R):
    """precise model of `write!` for this kernel: the compiled format template is decoded, Display of strings / i32 is
    rendered with z3 string terms, Display of crate types is executed from their own MIR"""
    import re as _re
    import summaries as Sm
    from vm import NativeFrame

    def decode(template):
        pieces, i = [], 0
        while i < len(template):
            b = template[i]
            if b == 0:
                break
            if b == 0xC0:
                pieces.append(('arg',))
                i += 1
            elif b < 0x80:
                pieces.append(('lit', template[i + 1:i + 1 + b].decode()))
                i += 1 + b
            else:
                raise V.Unsupported(f'format template byte {b:#x} (explicit argument position / flags)')
        return pieces

    def o_argument(vm, st, callee, args, dest, ret_bb, m):
        return vm.ret(st, dest, ret_bb, Opaque('fmtarg', (args[0], m.group(1))))

    def o_arguments(vm, st, callee, args, dest, ret_bb, m):
        t = args[0]
        t = vm.load(st, t) if isinstance(t, Ptr) else t
        arr = Sm.slice_items(vm, st, args[1]) if len(args) > 1 else []
        return vm.ret(st, dest, ret_bb, Opaque('fmtargs', (decode(t.data), tuple(vm.load(st, a) for a in arr))))

    def int_to_str(x):
        # the decimal rendering of integers is std's, not under test: one free string per distinct integer term
        memo = R.vm.__dict__.setdefault('dec_memo', {})
        key = z3.simplify(x).sexpr()
        if key not in memo:
            memo[key] = z3.String(f'decimal({key[:24]})#{len(memo)}')
            R.vm.__dict__.setdefault('dec_terms', {})[key] = z3.simplify(x)
        return memo[key]

    def append(vm, st, buf_ptr, piece):
        cur = vm.load(st, buf_ptr)
        cs = cur if isinstance(cur, StrV) else cur.fields[0]
        if isinstance(cs.s, str) and isinstance(piece, str):
            new = StrV(cs.s + piece)
        else:
            pz = z3.StringVal(piece) if isinstance(piece, str) else piece
            new = StrV(pz) if (isinstance(cs.s, str) and cs.s == '') else StrV(z3.Concat(cs.z(), pz))
        vm.store(st, buf_ptr, new if isinstance(cur, StrV) else Agg(None, [new], 'Formatter'))

    def render(vm, st, buf_ptr, pieces, argv, pi, ai, dest, ret_bb):
        while pi < len(pieces):
            p = pieces[pi]
            pi += 1
            if p[0] == 'lit':
                append(vm, st, buf_ptr, p[1])
                continue
            a = argv[ai]
            ai += 1
            val = Sm.deref(vm, st, a.data[0])
            if isinstance(val, Agg) and val.tag == 'Cow':
                val = Sm.deref(vm, st, val.fields[0])
            if isinstance(val, StrV):
                append(vm, st, buf_ptr, val.s)
            elif z3.is_bv(val):
                append(vm, st, buf_ptr, int_to_str(val))
            else:
                # a crate type: run its Display::fmt on a scratch formatter, then continue
                tname = a.data[1].lstrip('&')
                fn = vm.resolve_local(f'<{tname} as Display>::fmt', [None, None]) or vm.resolve_local(f'<{tname} as std::fmt::Display>::fmt', [None, None])
                if fn is None:
                    raise V.Unsupported(f'Display of {tname}')
                tmp = Ptr(st.alloc(Agg(None, [StrV('')], 'Formatter')), ())
                vptr = a.data[0]
                while isinstance(vptr, Ptr) and isinstance(vm.load(st, vptr), Ptr):
                    vptr = vm.load(st, vptr)

                def cont(vm_, st_, nf, value, pi=pi, ai=ai, tmp=tmp):
                    st_.frames.pop()
                    append(vm_, st_, buf_ptr, vm_.load(st_, tmp).fields[0].s)
                    return render(vm_, st_, buf_ptr, pieces, argv, pi, ai, dest, ret_bb)
                st.frames.append(NativeFrame('then', cont, None, None))
                vm.push_call(st, fn, [vptr, tmp], None, None)
                return None
        return vm.ret(st, dest, ret_bb, Agg(0, [V.UNIT], 'Result'))

    def o_write_fmt(vm, st, callee, args, dest, ret_bb, m):
        fa = args[1]
        return render(vm, st, args[0], fa.data[0], fa.data[1], 0, 0, dest, ret_bb)

    def o_trim_end(vm, st, callee, args, dest, ret_bb, m):
        s_ = Sm.as_str(vm, st, args[0])
        ch = chr(z3.simplify(args[1]).as_long())
        if isinstance(s_.s, str):
            return vm.ret(st, dest, ret_bb, StrV(s_.s.rstrip(ch)))
        decs = set(v_.sexpr() for v_ in vm.__dict__.get('dec_memo', {}).values())

        def parts_of(e):
            if z3.is_app(e) and e.decl().kind() == z3.Z3_OP_SEQ_CONCAT:
                out_ = []
                for a_ in e.children():
                    out_ += parts_of(a_)
                return out_
            return [e]

        def trim(parts):
            """the string made of `parts` with trailing `ch` removed, as a z3 term (structural: literals and decimal
            renderings are handled exactly, a free string gets a fresh 'kept' prefix)"""
            if not parts:
                return z3.StringVal('')
            last, prefix = parts[-1], parts[:-1]
            if z3.is_string_value(last):
                t_ = last.as_string().rstrip(ch)
                if t_ == '':
                    return trim(prefix)
                return z3.Concat(*(prefix + [z3.StringVal(t_)])) if prefix else z3.StringVal(t_)
            if last.sexpr() in decs:
                return z3.Concat(*parts) if len(parts) > 1 else last      # never empty, never ends in '/'
            r, t = z3.FreshConst(z3.StringSort(), 'trim_kept'), z3.FreshConst(z3.StringSort(), 'trim_cut')
            st.pc += [last == z3.Concat(r, t), z3.InRe(t, z3.Star(z3.Re(ch))), z3.Not(z3.SuffixOf(z3.StringVal(ch), r))]
            kept = z3.Concat(*(prefix + [r])) if prefix else r
            return z3.If(z3.Length(r) == 0, trim(prefix), kept)
        return vm.ret(st, dest, ret_bb, StrV(z3.simplify(trim(parts_of(s_.z())))))

    def o_string_new(vm, st, callee, args, dest, ret_bb, m):
        return vm.ret(st, dest, ret_bb, StrV(''))
    return [(_re.compile(r"^core::fmt::rt::Argument::<'_>::new_display::<(.*)>$"), o_argument),
            (_re.compile(r"^Arguments::<'_>::new::<"), o_arguments),
            (_re.compile(r'(Formatter::<.*>|as (std::fmt::)?Write>)::write_fmt$'), o_write_fmt),
            (_re.compile(r'^core::str::<impl str>::trim_end_matches::<char>$'), o_trim_end),
            (_re.compile(r'^std::string::String::new$'), o_string_new)]


def k_error_display(R, maxpath):
    """<graphql_client::Error as Display>::fmt: output == join("/", path) or "<query>", then ":line:column: message" """
    cands_fn = [fn for n, fn in R.L.funcs.items() if n.endswith('::fmt') and fn.params and fn.params[0][1].replace(' ', '') == '&Error']
    disp = [fn for fn in cands_fn if R.vm.impl_trait(fn) == 'Display']
    if len(disp) != 1:
        raise V.Unsupported(f'Display for Error not found ({[x.name for x in cands_fn]})')
    f = disp[0]
    R.vm.overrides = fmt_overrides(R)
    out = []
    pf = R.L.enums['PathFragment']
    for n, nloc in [(n_, l_) for n_ in range(0, maxpath + 1) for l_ in (0, 1, 2)]:
        has_path = z3.BitVec(f'ed_hp{n}', 8)
        kinds = [z3.BitVec(f'ed_k{n}_{i}', 8) for i in range(n)]
        keys = [z3.String(f'ed_key{n}_{i}') for i in range(n)]
        idxs = [z3.BitVec(f'ed_idx{n}_{i}', 32) for i in range(n)]
        msg = z3.String(f'ed_msg{n}')
        has_loc = z3.BitVec(f'ed_hl{n}', 8)
        line, col = z3.BitVec(f'ed_line{n}', 32), z3.BitVec(f'ed_col{n}', 32)
        line2, col2 = z3.BitVec(f'ed_line2_{n}', 32), z3.BitVec(f'ed_col2_{n}', 32)
        holder = {}

        def setup(st, B):
            st.pc += [z3.ULT(has_path, 2), z3.ULT(has_loc, 2)] + [z3.ULT(k_, 2) for k_ in kinds]
            frags = [SymEnum(kinds[i], {pf.index('Key'): (StrV(keys[i]),), pf.index('Index'): (idxs[i],)}) for i in range(n)]
            locs = [B.struct('Location', line=line, column=col), B.struct('Location', line=line2, column=col2)][:nloc]
            err = B.struct('Error', message=StrV(msg), locations=SymEnum(has_loc, {0: (), 1: (VecV(locs),)}), path=SymEnum(has_path, {0: (), 1: (VecV(frags),)}), extensions=none())
            fm = B.cell(Agg(None, [StrV('')], 'Formatter'))
            holder['fm'] = fm
            R.vm.push_call(st, f, [B.cell(err), fm], None, None)
        outs, _ = R.explore(f'<Error as Display>::fmt (path length {n}, {nloc} locations)', setup)
        def i2s(x):
            memo = R.vm.__dict__.setdefault('dec_memo', {})
            key = z3.simplify(x).sexpr()
            if key not in memo:
                memo[key] = z3.String(f'decimal({key[:24]})#{len(memo)}')
                R.vm.__dict__.setdefault('dec_terms', {})[key] = z3.simplify(x)
            return memo[key]
        seg = [z3.If(kinds[i] == pf.index('Key'), keys[i], i2s(idxs[i])) for i in range(n)]
        joined = z3.StringVal('')
        for i, s_ in enumerate(seg):
            joined = s_ if i == 0 else z3.Concat(joined, z3.StringVal('/'), s_)
        path_str = z3.If(has_path == 1, joined, z3.StringVal('<query>'))
        first = z3.And(has_loc == 1, z3.BoolVal(nloc > 0))       # the first location when there is one, 0:0 otherwise
        l_, c_ = z3.If(first, i2s(line), i2s(bv(0, 32))), z3.If(first, i2s(col), i2s(bv(0, 32)))
        want = z3.Concat(path_str, z3.StringVal(':'), l_, z3.StringVal(':'), c_, z3.StringVal(': '), msg)
        for o in outs:
            if o.kind != 'return':
                m = R.prove('error_display', o, z3.BoolVal(False), 'Display is total')
                if m is not None:
                    out.append(dict(kernel='error_display', prop='C15', what=f'Display is not total: {o.kind} {o.msg}'))
                continue
            got = R.vm.load(o.state, holder['fm']).fields[0].z()
            # all the kernel needs to know about decimal renderings: they are not empty and do not end in '/'
            dec_ok = []
            for v_ in R.vm.__dict__.get('dec_memo', {}).values():
                dec_ok += [z3.Length(v_) > 0, z3.Not(z3.SuffixOf(z3.StringVal('/'), v_))]
            # ... and that rendering is a function of the integer, and an injective one
            terms = R.vm.__dict__.get('dec_terms', {})
            memo_ = R.vm.__dict__.get('dec_memo', {})
            ks = [k for k in memo_ if k in terms]
            for a_ in range(len(ks)):
                for b_ in range(a_ + 1, len(ks)):
                    ta, tb = terms[ks[a_]], terms[ks[b_]]
                    if ta.sort() == tb.sort():
                        dec_ok.append((ta == tb) == (memo_[ks[a_]] == memo_[ks[b_]]))
            m = R.prove('error_display', o, z3.Implies(z3.And(*dec_ok) if dec_ok else z3.BoolVal(True), got == want), f'path length {n}')
            if m is not None:
                ev = lambda x: m.eval(x, model_completion=True)
                path = None
                if ev(has_path).as_long() == 1:
                    path = [ev(keys[i]).as_string() if ev(kinds[i]).as_long() == pf.index('Key') else ev(idxs[i]).as_signed_long() for i in range(n)]
                out.append(dict(kernel='error_display', prop='C15', what='Display output differs from `path:line:column: message`', path=path, message=ev(msg).as_string(),
                                location=None if ev(has_loc).as_long() != 1 else [[ev(line).as_signed_long(), ev(col).as_signed_long()], [ev(line2).as_signed_long(), ev(col2).as_signed_long()]][:nloc],
                                got=ev(got).as_string(), want=ev(want).as_string()))
        R.sample(dict(kernel='error_display', path_length=n, locations=nloc, paths=len(outs)))
    R.vm.overrides = []
    return out
