"""Engine-M kernels: each function explores one piece of graphql-client's decision logic
symbolically and discharges the obligations a property puts on it.

Conventions: `R` is an mcheck.MRun; every kernel returns a list of *candidate
violations* (dicts with a concrete input) which the calling check replays natively
before anything is reported.
"""
import itertools
import z3

import vm as V
from vm import Agg, SymEnum, Ptr, StrV, VecV, Opaque, Tokens, bv, none, some, mk_bool, simp

REQ, LIST = 0, 1   # positions in `enum GraphqlTypeQualifier { Required, List }`; checked against the source below


def qual_indices(R):
    vs = R.L.enums.get('GraphqlTypeQualifier')
    if vs is None or sorted(vs) != ['List', 'Required']:
        raise V.Unsupported(f'GraphqlTypeQualifier variants changed: {vs}')
    return vs.index('Required'), vs.index('List')


# ---------------------------------------------------------------- token helpers

def type_chain(tokens):
    """tokens of a generic type chain `A<B<C>>` -> ['A','B','C'] or None if not a chain"""
    items = []
    for t in tokens.items:
        if t[0] == 'punct' and t[1] == '>>':
            items += [('punct', '>'), ('punct', '>')]
        else:
            items.append(t)
    names = []
    i = 0
    depth = 0
    expect_ident = True
    while i < len(items):
        t = items[i]
        if expect_ident:
            if t[0] != 'ident':
                return None
            names.append(t[1])
            expect_ident = False
        elif t == ('punct', '<'):
            depth += 1
            expect_ident = True
        elif t == ('punct', '>'):
            depth -= 1
            if depth < 0:
                return None
        else:
            return None
        i += 1
    if depth != 0 or expect_ident:
        return None
    # closers must all come after the last ident
    first_close = next((k for k, t in enumerate(items) if t == ('punct', '>')), len(items))
    if any(t[0] == 'ident' for t in items[first_close:]):
        return None
    return names


def ref_nesting(quals_z3, req, lst):
    """reference rule as a z3 String over symbolic qualifiers (outer -> inner):
    'O' = Option, 'V' = Vec, 'T' = the named type; also returns `adjacent Required` predicate"""
    pieces = []
    pending = z3.BoolVal(False)
    adj = z3.BoolVal(False)
    w = quals_z3[0].size() if quals_z3 else 8
    for q in quals_z3:
        is_l = q == bv(lst, w)
        pieces.append(z3.If(is_l, z3.If(pending, z3.StringVal('V'), z3.StringVal('OV')), z3.StringVal('')))
        adj = z3.Or(adj, z3.And(z3.Not(is_l), pending))
        pending = z3.Not(is_l)
    pieces.append(z3.If(pending, z3.StringVal('T'), z3.StringVal('OT')))
    s = pieces[0] if len(pieces) == 1 else z3.Concat(*pieces)
    return s, adj


def ref_nesting_concrete(ql):
    """ql: list of 'R' / 'L' outer->inner -> rust type string around 'T'"""
    out, pending = [], False
    for q in ql:
        if q == 'L':
            out.append('Vec' if pending else 'Option<Vec')
            pending = False
        else:
            pending = True
    out.append('T' if pending else 'Option<T')
    s = '<'.join(out)
    return s + '>' * s.count('<')


def chain_code(names, base):
    code = ''
    for n in names:
        if n == 'Option':
            code += 'O'
        elif n == 'Vec':
            code += 'V'
        elif n == 'Box':
            code += 'B'
        elif n == base:
            code += 'T'
        else:
            return None
    return code


def graphql_type_expr(ql, name='Int'):
    t = name
    for q in reversed(ql):
        t = t + '!' if q == 'R' else f'[{t}]'
    return t


# ---------------------------------------------------------------- C13: decorate_type

def k_decorate_type(R, maxlen):
    req, lst = qual_indices(R)
    f = R.fn('decorate_type')
    cands = []
    for n in range(0, maxlen + 1):
        qs = [z3.BitVec(f'dq{n}_{i}', 8) for i in range(n)]

        def setup(st, B, n=n, qs=qs):
            for q in qs:
                st.pc.append(z3.ULT(q, 2))
            sl = B.slice_of([SymEnum(q, {0: (), 1: ()}) for q in qs])
            ident = B.cell(Opaque('ident', 'T'))
            R.vm.push_call(st, f, [ident, sl], None, None)
        outs, _ = R.explore('decorate_type', setup)
        ref, adj = ref_nesting(qs, req, lst) if qs else (z3.StringVal('OT'), z3.BoolVal(False))
        for o in outs:
            if o.kind == 'return':
                names = type_chain(o.value) if isinstance(o.value, Tokens) else None
                code = chain_code(names, 'T') if names else None
                if code is None:
                    claim = z3.BoolVal(False)
                else:
                    claim = z3.And(ref == z3.StringVal(code), z3.Not(adj))
                m = R.prove('decorate_type', o, claim, f'len {n}')
                R.sample({'kernel': 'decorate_type', 'len': n, 'tokens': code, 'path_condition_size': len(o.state.pc)}) if n >= 2 else None
                if m is not None:
                    ql = ['R' if m.eval(q, model_completion=True).as_long() == req else 'L' for q in qs]
                    cands.append(dict(kernel='decorate_type', qualifiers=ql, got=code, tokens=repr(o.value)))
            elif o.kind == 'panic':
                ok_msg = 'double required' in o.msg
                m = R.prove('decorate_type', o, adj if ok_msg else z3.BoolVal(False), f'panic len {n}')
                if m is not None:
                    ql = ['R' if m.eval(q, model_completion=True).as_long() == req else 'L' for q in qs]
                    cands.append(dict(kernel='decorate_type', qualifiers=ql, got=f'panic: {o.msg}'))
            elif o.kind != 'limit':
                R.inconclusive.append(f'decorate_type: path ended with {o.kind}: {o.msg}')
    return cands


# ---------------------------------------------------------------- C13 / C07: qualifier extraction, SDL vs JSON

def sym_shape(depth, prefix):
    """k_i in {0 named, 1 list, 2 non-null}; level `depth` is forced to be named"""
    ks = [z3.BitVec(f'{prefix}k{i}', 8) for i in range(depth)]
    return ks


def shape_claim(ks, result_quals, req, lst):
    """the Vec of qualifiers (concrete length on a path) equals the wrappers in front of the first named level"""
    n = len(result_quals)
    cs = []
    for i in range(n):
        if i >= len(ks):
            return z3.BoolVal(False)
        cs.append(ks[i] != 0)
        q = result_quals[i]
        qd = q.discr if isinstance(q, SymEnum) else bv(q.variant, 8)
        cs.append(z3.If(ks[i] == 1, qd == bv(lst, qd.size()), qd == bv(req, qd.size())))
    if n < len(ks):
        cs.append(ks[n] == 0)
    return z3.And(*cs) if cs else z3.BoolVal(True)


def shape_of_model(m, ks):
    out = []
    for k in ks:
        v = m.eval(k, model_completion=True).as_long()
        if v == 0:
            break
        out.append('L' if v == 1 else 'R')
    return out


def k_resolve_field_type(R, depth):
    """schema::resolve_field_type over every SDL type expression with <= depth wrappers"""
    req, lst = qual_indices(R)
    f = R.fn('schema::resolve_field_type')
    ks = sym_shape(depth, 's')
    cands = []

    def setup(st, B):
        for k in ks:
            st.pc.append(z3.ULT(k, 3))
        for a, b in zip(ks, ks[1:]):
            st.pc.append(z3.Not(z3.And(a == 2, b == 2)))   # `T!!` is not a GraphQL type expression
        node = B.variant('Type', 'NamedType', StrV('T'))
        for i in reversed(range(depth)):
            child = node
            node = B.sym_enum('Type', ks[i], {'NamedType': (StrV('T'),), 'ListType': (B.boxed(child),), 'NonNullType': (B.boxed(child),)})
        schema = mini_schema(B)
        R.vm.push_call(st, f, [B.cell(schema), B.cell(node)], None, None)
    outs, _ = R.explore('resolve_field_type', setup)
    for o in outs:
        if o.kind == 'return':
            quals = o.value.fields[R.L.structs['StoredFieldType'].index('qualifiers')]
            claim = shape_claim(ks, list(quals.items), req, lst)
            m = R.prove('resolve_field_type', o, claim, 'sdl type expr')
            R.sample({'kernel': 'resolve_field_type', 'qualifiers_len': len(quals.items)})
            if m is not None:
                cands.append(dict(kernel='resolve_field_type', qualifiers=shape_of_model(m, ks), got=[q.variant if isinstance(q, Agg) else '?' for q in quals.items]))
        elif o.kind == 'panic':
            m = R.prove('resolve_field_type', o, z3.BoolVal(False), 'panic')
            if m is not None:
                cands.append(dict(kernel='resolve_field_type', qualifiers=shape_of_model(m, ks), got=f'panic: {o.msg}'))
        elif o.kind != 'limit':
            R.inconclusive.append(f'resolve_field_type: {o.kind}: {o.msg}')
    return cands


def mini_schema(B):
    """a Schema value whose `names` maps "T" to a scalar; the other tables are empty"""
    tid = B.variant('TypeId', 'Scalar', B.newtype('ScalarId', bv(0, 64)))
    return B.struct('Schema', stored_objects=VecV(()), stored_fields=VecV(()), stored_interfaces=VecV(()), stored_unions=VecV(()),
                    stored_scalars=VecV(()), stored_enums=VecV(()), stored_inputs=VecV(()), names=B.btreemap([(StrV('T'), tid)]),
                    query_type=none(), mutation_type=none(), subscription_type=none())


def k_from_json_type(R, depth):
    """json_conversion::from_json_type_inner over every introspection TypeRef chain with <= depth wrappers"""
    req, lst = qual_indices(R)
    f = R.fn('from_json_type_inner')
    ks = sym_shape(depth, 'j')
    nks = [z3.BitVec(f'jn{i}', 8) for i in range(depth + 1)]
    cands = []
    kinds = R.L.enums['__TypeKind']
    i_list, i_nn = kinds.index('LIST'), kinds.index('NON_NULL')

    def setup(st, B):
        for k in ks:
            st.pc.append(z3.ULT(k, 3))
        for a, b in zip(ks, ks[1:]):
            st.pc.append(z3.Not(z3.And(a == 2, b == 2)))
        for nk in nks:
            st.pc.append(z3.And(z3.ULT(nk, len(kinds) - 1), nk != i_list, nk != i_nn))

        def typeref(level):
            if level == depth:
                kind = some(SymEnum(nks[level], {i: () for i in range(len(kinds) - 1)}))
                return B.struct('TypeRef', kind=kind, name=some(StrV('T')), of_type=none())
            k = ks[level]
            child = typeref(level + 1)
            kd = z3.If(k == 1, bv(i_list, 8), z3.If(k == 2, bv(i_nn, 8), nks[level]))
            kind = some(SymEnum(kd, {i: () for i in range(len(kinds) - 1)}))
            name = SymEnum(z3.If(k == 0, bv(1, 8), bv(0, 8)), {0: (), 1: (StrV('T'),)})
            of = SymEnum(z3.If(k == 0, bv(0, 8), bv(1, 8)), {0: (), 1: (B.boxed(child),)})
            return B.struct('TypeRef', kind=kind, name=name, of_type=of)
        schema = mini_schema(B)
        R.vm.push_call(st, f, [B.cell(schema), B.cell(typeref(0))], None, None)
    outs, _ = R.explore('from_json_type_inner', setup)
    for o in outs:
        if o.kind == 'return':
            quals = o.value.fields[R.L.structs['StoredFieldType'].index('qualifiers')]
            claim = shape_claim(ks, list(quals.items), req, lst)
            m = R.prove('from_json_type_inner', o, claim, 'json type ref')
            R.sample({'kernel': 'from_json_type_inner', 'qualifiers_len': len(quals.items)})
            if m is not None:
                cands.append(dict(kernel='from_json_type_inner', qualifiers=shape_of_model(m, ks), got=[q.variant if isinstance(q, Agg) else '?' for q in quals.items]))
        elif o.kind == 'panic':
            m = R.prove('from_json_type_inner', o, z3.BoolVal(False), 'panic')
            if m is not None:
                cands.append(dict(kernel='from_json_type_inner', qualifiers=shape_of_model(m, ks), got=f'panic: {o.msg}'))
        elif o.kind != 'limit':
            R.inconclusive.append(f'from_json_type_inner: {o.kind}: {o.msg}')
    return cands
