"""Library summaries for mirsym (DESIGN.md 3.2 item 4).

Each summary states the documented behaviour of one std / quote / heck / serde
function in terms of the VM's value model.  A callee without a summary makes
the run inconclusive.  The list of summaries *used* by a check is written to its
evidence file: they are part of the trusted base.
"""
import copy
import re
import z3

from vm import (Agg, SymEnum, Ptr, StrV, VecV, Opaque, ClosureV, FnItem, IterV, Tokens, UNIT, Unsupported, NativeFrame, Outcome,
                bv, simp, none, some, mk_bool, _strip_generics)

NOVAL = object()


def install(vm):
    for pat, fn in TABLE:
        vm.summaries.append((re.compile(pat), fn, fn.__name__ + ':' + pat))


# ---------------------------------------------------------------- helpers

def done(vm, st, dest, ret_bb, value):
    return vm.ret(st, dest, ret_bb, value)


def deref(vm, st, v):
    """follow pointers down to a non-pointer value"""
    while isinstance(v, Ptr) and v.meta is None:
        v = vm.load(st, v)
    return v


def as_str(vm, st, v):
    v = deref(vm, st, v)
    if isinstance(v, StrV):
        return v
    if isinstance(v, Agg) and v.tag == 'Cow' or (isinstance(v, Agg) and v.variant in (0, 1) and len(v.fields) == 1 and isinstance(deref(vm, st, v.fields[0]), StrV)):
        return deref(vm, st, v.fields[0])
    raise Unsupported(f'not a string: {v!r}')


def slice_items(vm, st, p):
    """element pointers of a slice / Vec / array reference"""
    if isinstance(p, Ptr) and p.meta and p.meta[0] == 'slice':
        start, ln = p.meta[1], p.meta[2]
        return [Ptr(p.cell, p.path + (('i', start + i),)) for i in range(ln)]
    if isinstance(p, Ptr):
        v = vm.load(st, p)
        if isinstance(v, VecV):
            return [Ptr(p.cell, p.path + (('i', i),)) for i in range(len(v.items))]
        if isinstance(v, Agg) and v.variant is None:
            return [Ptr(p.cell, p.path + (('i', i),)) for i in range(len(v.fields))]
        if isinstance(v, Ptr):
            return slice_items(vm, st, v)
    raise Unsupported(f'not a slice: {p!r}')


def str_eq(a, b):
    if isinstance(a.s, str) and isinstance(b.s, str):
        return mk_bool(a.s == b.s)
    return simp(a.z() == b.z())


def values_eq(vm, st, a, b):
    """structural equality as a z3 Bool (PartialEq of plain data)"""
    a, b = deref(vm, st, a), deref(vm, st, b)
    if isinstance(a, Agg) and a.tag == 'Cow' and isinstance(b, StrV):
        a = deref(vm, st, a.fields[0])
    if isinstance(b, Agg) and b.tag == 'Cow' and isinstance(a, StrV):
        b = deref(vm, st, b.fields[0])
    if isinstance(a, Opaque) and a.tag in ('ident', 'synpath') and isinstance(b, StrV):
        a = StrV(a.data)
    if isinstance(b, Opaque) and b.tag in ('ident', 'synpath') and isinstance(a, StrV):
        b = StrV(b.data)
    if isinstance(a, StrV) and isinstance(b, StrV):
        return str_eq(a, b)
    if z3.is_expr(a) and z3.is_expr(b):
        return simp(a == b)
    if isinstance(a, SymEnum) or isinstance(b, SymEnum):
        return symenum_eq(vm, st, a, b)
    if isinstance(a, Agg) and isinstance(b, Agg):
        if a.variant != b.variant or len(a.fields) != len(b.fields):
            return mk_bool(False)
        cs = [values_eq(vm, st, x, y) for x, y in zip(a.fields, b.fields)]
        return simp(z3.And(*cs)) if cs else mk_bool(True)
    if isinstance(a, VecV) and isinstance(b, VecV):
        if len(a.items) != len(b.items):
            return mk_bool(False)
        cs = [values_eq(vm, st, x, y) for x, y in zip(a.items, b.items)]
        return simp(z3.And(*cs)) if cs else mk_bool(True)
    raise Unsupported(f'equality of {a!r} and {b!r}')


def symenum_eq(vm, st, a, b):
    def cases(x):
        if isinstance(x, SymEnum):
            return [(x.discr == bv(k, x.discr.size()), k, f) for k, f in x.cases.items()]
        return [(mk_bool(True), x.variant, x.fields)]
    out = []
    for ca, ka, fa in cases(a):
        for cb, kb, fb in cases(b):
            if ka != kb:
                continue
            cs = [values_eq(vm, st, x, y) for x, y in zip(fa, fb)]
            out.append(z3.And(ca, cb, *cs))
    return simp(z3.Or(*out)) if out else mk_bool(False)


def fork_bool(vm, st, cond, on_true, on_false):
    """continue with on_true(st) / on_false(st); forks when both are feasible.
    The callbacks mutate the state they get and return None | list | Outcome."""
    cond = simp(cond)
    t_ok = vm.feasible(st, cond)
    f_ok = vm.feasible(st, z3.Not(cond))
    if t_ok and f_ok:
        s2 = st.clone()
        st.pc.append(cond)
        s2.pc.append(simp(z3.Not(cond)))
        r1 = on_true(st)
        r2 = on_false(s2)
        out = []
        for s, r in ((st, r1), (s2, r2)):
            if r is None:
                out.append(s)
            elif isinstance(r, list):
                out.extend(r)
            else:
                out.append(_Finished(r))
        return out
    if t_ok:
        return on_true(st)
    if f_ok:
        return on_false(st)
    raise Unsupported('inconsistent path condition')


class _Finished:
    """wrapper so that a finished Outcome can travel through the work list"""

    def __init__(self, outcome):
        self.outcome = outcome


# ---------------------------------------------------------------- the pull machine (iterators)

class Pull:
    __slots__ = ('itv', 'stage', 'cur', 'consumer', 'acc', 'wait', 'iter_ptr')

    def __init__(self, itv, consumer, acc=None, iter_ptr=None):
        self.itv = itv
        self.stage = 0
        self.cur = NOVAL
        self.consumer = consumer
        self.acc = acc
        self.wait = None
        self.iter_ptr = iter_ptr

    def clone(self):
        return copy.copy(self)


def start_pull(vm, st, itv, consumer, dest, ret_bb, acc=None, iter_ptr=None):
    nf = NativeFrame('pull', Pull(itv, consumer, acc, iter_ptr), dest, ret_bb)
    st.frames.append(nf)
    return None     # main loop resumes the native frame


def finish_native(vm, st, nf, value):
    assert st.frames[-1] is nf
    st.frames.pop()
    return vm.ret(st, nf.dest, nf.ret_bb, value)


def resume(vm, st, nf, value, start=False):
    if nf.kind == 'pull':
        # never mutate a Pull shared with a forked state
        nf.data = nf.data.clone()
        return pull_step(vm, st, nf, value)
    if nf.kind == 'then':
        # generic continuation: data = python callable(vm, st, nf, value)
        return nf.data(vm, st, nf, value)
    raise Unsupported(f'native frame {nf.kind}')


def write_back(vm, st, p):
    if p.iter_ptr is not None:
        vm.store(st, p.iter_ptr, p.itv)


def pull_step(vm, st, nf, value):
    p = nf.data
    # a closure we were waiting for has returned
    if p.wait == 'stage':
        p.wait = None
        kind = p.itv.stages[p.stage][0]
        if kind == 'map':
            p.cur = value
            p.stage += 1
        elif kind == 'filter':
            def keep(s):
                q = s.frames[-1].data = s.frames[-1].data.clone()
                q.stage += 1
                return None

            def dropit(s):
                q = s.frames[-1].data = s.frames[-1].data.clone()
                q.cur = NOVAL
                return None
            return fork_bool(vm, st, value, keep, dropit)
        elif kind == 'flat_map':
            inner = deref(vm, st, value)
            if isinstance(inner, VecV):          # any IntoIterator: a Vec yields its elements
                inner = IterV(inner.items)
            if not isinstance(inner, IterV) or inner.stages:
                raise Unsupported(f'flat_map closure returned {inner!r}')
            # splice the inner items in front of the remaining outer ones; they continue after this stage
            p.itv = IterV(tuple(('@from', p.stage + 1, x) for x in inner.items) + tuple(p.itv.items), p.itv.stages, p.itv.count)
            p.cur = NOVAL
        elif kind == 'filter_map':
            v = value
            if isinstance(v, SymEnum):
                raise Unsupported('filter_map with symbolic Option')
            if v.variant == 0:
                p.cur = NOVAL
            else:
                p.cur = v.fields[0]
                p.stage += 1
        else:
            raise Unsupported(f'stage {kind}')
    elif p.wait == 'consumer':
        p.wait = None
        return consumer_got(vm, st, nf, value)
    while True:
        if p.cur is NOVAL:
            if not p.itv.items:
                return consumer_end(vm, st, nf)
            item = p.itv.items[0]
            p.itv = IterV(p.itv.items[1:], p.itv.stages, p.itv.count)
            if isinstance(item, tuple) and len(item) == 3 and item[0] == '@from':
                p.cur, p.stage = item[2], item[1]
            else:
                p.cur = item
                p.stage = 0
        if p.stage >= len(p.itv.stages):
            item = p.cur
            p.cur = NOVAL
            return consumer_item(vm, st, nf, item)
        stg = p.itv.stages[p.stage]
        kind = stg[0]
        if kind in ('map', 'filter_map', 'flat_map'):
            p.wait = 'stage'
            vm.call_closure(st, stg[1], [p.cur], None, None)
            return None
        if kind == 'filter':
            p.wait = 'stage'
            cell = st.alloc(p.cur)
            vm.call_closure(st, stg[1], [Ptr(cell, ())], None, None)
            return None
        if kind == 'enumerate':
            p.cur = Agg(None, [bv(p.itv.count, 64), p.cur])
            p.itv = IterV(p.itv.items, p.itv.stages, p.itv.count + 1)
            p.stage += 1
            continue
        if kind in ('copied', 'cloned'):
            p.cur = vm.load(st, p.cur)
            p.stage += 1
            continue
        raise Unsupported(f'iterator stage {kind}')


def consumer_item(vm, st, nf, item):
    p = nf.data
    c = p.consumer
    kind = c[0]
    if kind == 'next':
        write_back(vm, st, p)
        return finish_native(vm, st, nf, some(item))
    if kind in ('any', 'all', 'position'):
        p.wait = 'consumer'
        p.acc = (p.acc or 0)
        vm.call_closure(st, c[1], [item], None, None)
        return None
    if kind in ('find',):
        p.wait = 'consumer'
        p.acc = item
        cell = st.alloc(item)
        vm.call_closure(st, c[1], [Ptr(cell, ())], None, None)
        return None
    if kind in ('find_map', 'for_each', 'map_collect'):
        p.wait = 'consumer'
        vm.call_closure(st, c[1], [item], None, None)
        return None
    if kind == 'collect':
        p.acc = (p.acc or ()) + (item,)
        return None
    if kind == 'count':
        p.acc = (p.acc or 0) + 1
        return None
    if kind == 'last':
        p.acc = item
        return None
    if kind == 'fold':
        p.wait = 'consumer'
        vm.call_closure(st, c[1], [p.acc, item], None, None)
        return None
    raise Unsupported(f'consumer {kind}')


def consumer_got(vm, st, nf, value):
    p = nf.data
    c = p.consumer
    kind = c[0]
    if kind == 'any':
        def yes(s):
            f = s.frames[-1]
            write_back(vm, s, f.data)
            return finish_native(vm, s, f, mk_bool(True))
        return fork_bool(vm, st, value, yes, lambda s: None)
    if kind == 'all':
        def no(s):
            f = s.frames[-1]
            write_back(vm, s, f.data)
            return finish_native(vm, s, f, mk_bool(False))
        return fork_bool(vm, st, value, lambda s: None, no)
    if kind == 'position':
        idx = p.acc

        def yes(s):
            f = s.frames[-1]
            write_back(vm, s, f.data)
            found = idx if len(c) < 3 else c[2] - 1 - idx        # rposition: searched from the back
            return finish_native(vm, s, f, some(bv(found, 64)))

        def no(s):
            q = s.frames[-1].data = s.frames[-1].data.clone()
            q.acc = idx + 1
            return None
        return fork_bool(vm, st, value, yes, no)
    if kind == 'find':
        item = p.acc

        def yes(s):
            f = s.frames[-1]
            write_back(vm, s, f.data)
            return finish_native(vm, s, f, some(item))
        return fork_bool(vm, st, value, yes, lambda s: None)
    if kind == 'find_map':
        if isinstance(value, SymEnum):
            raise Unsupported('find_map with symbolic Option')
        if value.variant == 1:
            write_back(vm, st, p)
            return finish_native(vm, st, nf, value)
        return None
    if kind == 'for_each':
        return None
    if kind == 'fold':
        p.acc = value
        return None
    raise Unsupported(f'consumer-got {kind}')


def consumer_end(vm, st, nf):
    p = nf.data
    kind = p.consumer[0]
    write_back(vm, st, p)
    if kind in ('next', 'find', 'find_map', 'position', 'last'):
        if kind == 'last' and p.acc is not None:
            return finish_native(vm, st, nf, some(p.acc))
        return finish_native(vm, st, nf, none())
    if kind == 'any':
        return finish_native(vm, st, nf, mk_bool(False))
    if kind == 'all':
        return finish_native(vm, st, nf, mk_bool(True))
    if kind == 'collect':
        return finish_native(vm, st, nf, VecV(p.acc or ()))
    if kind == 'count':
        return finish_native(vm, st, nf, bv(p.acc or 0, 64))
    if kind == 'for_each':
        return finish_native(vm, st, nf, UNIT)
    if kind == 'fold':
        return finish_native(vm, st, nf, p.acc)
    raise Unsupported(f'consumer-end {kind}')


def get_iter(vm, st, v):
    """(IterV, pointer to write back or None)"""
    if isinstance(v, Ptr):
        inner = vm.load(st, v)
        if isinstance(inner, IterV):
            return inner, v
        if isinstance(inner, Ptr):
            return get_iter(vm, st, inner)
        raise Unsupported(f'not an iterator: {inner!r}')
    if isinstance(v, IterV):
        return v, None
    raise Unsupported(f'not an iterator: {v!r}')


# ---------------------------------------------------------------- summaries: iterators / slices / vec

def s_slice_iter(vm, st, callee, args, dest, ret_bb, m):
    return done(vm, st, dest, ret_bb, IterV(slice_items(vm, st, args[0])))


def s_into_iter_self(vm, st, callee, args, dest, ret_bb, m):
    v = args[0]
    if isinstance(v, IterV):
        return done(vm, st, dest, ret_bb, v)
    if isinstance(v, Ptr):
        return done(vm, st, dest, ret_bb, IterV(slice_items(vm, st, v)))
    if isinstance(v, VecV):
        return done(vm, st, dest, ret_bb, IterV(v.items))
    if isinstance(v, Tokens):
        return done(vm, st, dest, ret_bb, IterV(v.items))
    if isinstance(v, Agg) and v.tag in (None, 'Option') and v.variant in (0, 1) and len(v.fields) <= 1:
        return done(vm, st, dest, ret_bb, IterV(tuple(v.fields) if v.variant == 1 else ()))
    if isinstance(v, SymEnum) and set(v.cases) == {0, 1} and len(v.cases[0]) == 0 and len(v.cases[1]) == 1:
        # Option<T> with a symbolic discriminant: an iterator over zero or one item
        return fork_bool(vm, st, v.discr == 1,
                         lambda s_: vm.ret(s_, dest, ret_bb, IterV((v.cases[1][0],))),
                         lambda s_: vm.ret(s_, dest, ret_bb, IterV(())))
    raise Unsupported(f'into_iter of {v!r}')


def s_iter_adapter(kind):
    def h(vm, st, callee, args, dest, ret_bb, m):
        itv, _ = get_iter(vm, st, args[0])
        if kind == 'rev':
            if itv.stages:
                raise Unsupported('rev after adapters')
            return done(vm, st, dest, ret_bb, IterV(tuple(reversed(itv.items)), (), 0))
        stage = (kind,) + tuple(args[1:])
        return done(vm, st, dest, ret_bb, IterV(itv.items, itv.stages + (stage,), itv.count))
    h.__name__ = f's_iter_{kind}'
    return h


def s_iter_consumer(kind):
    def h(vm, st, callee, args, dest, ret_bb, m):
        itv, ptr = get_iter(vm, st, args[0])
        consumer = (kind,) + tuple(args[1:])
        acc = None
        if kind == 'fold':
            acc = args[1]
            consumer = (kind, args[2])
        return start_pull(vm, st, itv, consumer, dest, ret_bb, acc=acc, iter_ptr=ptr)
    h.__name__ = f's_iter_{kind}'
    return h


def s_iter_rposition(vm, st, callee, args, dest, ret_bb, m):
    """Iterator::rposition on an exact-size iterator without adapters: search from the back, index counted from the front"""
    itv, ptr = get_iter(vm, st, args[0])
    if itv.stages:
        raise Unsupported('rposition behind iterator adapters')
    n = len(itv.items)
    rev = IterV(tuple(reversed(itv.items)), (), itv.count)
    return start_pull(vm, st, rev, ('position', args[1], n), dest, ret_bb, acc=None, iter_ptr=None)


def s_index_range(vm, st, callee, args, dest, ret_bb, m):
    """<Vec<T> / [T] as Index<RangeFrom | RangeTo | Range<usize>>>::index with concrete bounds -> sub-slice reference"""
    kind = m.group(1)
    base = args[0]
    items = slice_items(vm, st, base)
    rng = args[1]

    def bound(x):
        x = simp(x) if z3.is_expr(x) else x
        if not z3.is_bv_value(x):
            raise Unsupported('slice range with a symbolic bound')
        return x.as_long()
    if kind == 'RangeFrom':
        lo, hi = bound(rng.fields[0]), len(items)
    elif kind == 'RangeTo':
        lo, hi = 0, bound(rng.fields[0])
    else:
        lo, hi = bound(rng.fields[0]), bound(rng.fields[1])
    if not (0 <= lo <= hi <= len(items)):
        return Outcome('panic', st, msg='slice index out of range')
    if not items:
        p0 = base
        while isinstance(p0, Ptr) and p0.meta is None and isinstance(vm.load(st, p0), Ptr):
            p0 = vm.load(st, p0)
        return done(vm, st, dest, ret_bb, Ptr(p0.cell, p0.path, ('slice', 0, 0)))
    first = items[0]
    # element pointers are (cell, path + (('i', k),)): rebuild a slice pointer over the same container
    cont_path = first.path[:-1]
    start = first.path[-1][1]
    return done(vm, st, dest, ret_bb, Ptr(first.cell, cont_path, ('slice', start + lo, hi - lo)))


def s_closure_call(vm, st, callee, args, dest, ret_bb, m):
    """<{closure} as Fn / FnMut / FnOnce<(A, B, ..)>>::call*(closure, (a, b, ..)): a local closure called by name"""
    tup = args[1] if len(args) > 1 else Agg(None, ())
    tup = vm.load(st, tup) if isinstance(tup, Ptr) else tup
    clo = args[0]
    val = vm.load(st, clo) if isinstance(clo, Ptr) else clo
    if val is None:
        # a closure without captures is zero-sized: MIR never initialises the local that holds it
        cid = re.search(r'\{closure@[^}]*\}', callee).group(0)
        clo = ClosureV(cid, [])
    vm.call_closure(st, clo, list(tup.fields), dest, ret_bb)
    return None


def s_peekable(vm, st, callee, args, dest, ret_bb, m):
    itv, _ = get_iter(vm, st, args[0])
    return done(vm, st, dest, ret_bb, Agg(None, [itv, none()], 'Peekable'))


def s_slice_first(vm, st, callee, args, dest, ret_bb, m):
    items = slice_items(vm, st, args[0])
    return done(vm, st, dest, ret_bb, some(items[0]) if items else none())


def s_slice_last(vm, st, callee, args, dest, ret_bb, m):
    items = slice_items(vm, st, args[0])
    return done(vm, st, dest, ret_bb, some(items[-1]) if items else none())


def s_slice_len(vm, st, callee, args, dest, ret_bb, m):
    return done(vm, st, dest, ret_bb, bv(len(slice_items(vm, st, args[0])), 64))


def s_slice_is_empty(vm, st, callee, args, dest, ret_bb, m):
    return done(vm, st, dest, ret_bb, mk_bool(len(slice_items(vm, st, args[0])) == 0))


def s_slice_contains(vm, st, callee, args, dest, ret_bb, m):
    items = slice_items(vm, st, args[0])
    needle = args[1]
    cs = [values_eq(vm, st, it, needle) for it in items]
    return done(vm, st, dest, ret_bb, simp(z3.Or(*cs)) if cs else mk_bool(False))


def s_slice_get(vm, st, callee, args, dest, ret_bb, m):
    items = slice_items(vm, st, args[0])
    idx = simp(args[1])
    if z3.is_bv_value(idx):
        i = idx.as_long()
        return done(vm, st, dest, ret_bb, some(items[i]) if i < len(items) else none())
    # symbolic index: one branch per feasible element, plus out-of-range
    outs = []
    conds = [(idx == bv(i, idx.size()), some(items[i])) for i in range(len(items))]
    conds.append((z3.UGE(idx, bv(len(items), idx.size())), none()))
    feas = [(c, v) for c, v in conds if vm.feasible(st, c)]
    if not feas:
        raise Unsupported('slice get: no feasible index')
    for c, v in feas[1:]:
        s2 = st.clone()
        s2.pc.append(simp(c))
        r = vm.ret(s2, dest, ret_bb, v)
        outs.append(s2 if r is None else _Finished(r))
    if len(feas) > 1:
        st.pc.append(simp(feas[0][0]))
    r = vm.ret(st, dest, ret_bb, feas[0][1])
    outs.append(st if r is None else _Finished(r))
    return outs if len(outs) > 1 else (None if r is None else r)


def s_deref_id(vm, st, callee, args, dest, ret_bb, m):
    """Deref / AsRef / Borrow on String, Vec, Cow, &T: the same storage seen through another type"""
    p = args[0]
    v = vm.load(st, p) if isinstance(p, Ptr) else p
    if isinstance(v, VecV):
        return done(vm, st, dest, ret_bb, Ptr(p.cell, p.path, ('slice', 0, len(v.items))))
    if isinstance(v, StrV):
        return done(vm, st, dest, ret_bb, v)
    if isinstance(v, Agg) and v.tag == 'CowSlice':
        return s_cow_slice_as_ref(vm, st, callee, args, dest, ret_bb, m)
    if isinstance(v, Agg) and v.tag == 'Cow':
        inner = v.fields[0]
        return done(vm, st, dest, ret_bb, deref(vm, st, inner) if isinstance(deref(vm, st, inner), StrV) else inner)
    if isinstance(v, Agg) and v.tag == 'box':
        return done(vm, st, dest, ret_bb, box_ptr(v))
    if isinstance(v, Ptr):
        return done(vm, st, dest, ret_bb, v)
    if isinstance(v, Agg) and v.variant is None and 'Vec' not in callee and '[' in callee:
        return done(vm, st, dest, ret_bb, Ptr(p.cell, p.path, ('slice', 0, len(v.fields))))
    raise Unsupported(f'deref of {v!r} via {callee}')


def s_vec_new(vm, st, callee, args, dest, ret_bb, m):
    return done(vm, st, dest, ret_bb, VecV(()))


def s_vec_push(vm, st, callee, args, dest, ret_bb, m):
    v = vm.load(st, args[0])
    vm.store(st, args[0], VecV(v.items + (args[1],)))
    return done(vm, st, dest, ret_bb, UNIT)


def s_vec_extend_from_slice(vm, st, callee, args, dest, ret_bb, m):
    v = vm.load(st, args[0])
    more = tuple(vm.load(st, it) for it in slice_items(vm, st, args[1]))
    vm.store(st, args[0], VecV(v.items + more))
    return done(vm, st, dest, ret_bb, UNIT)


def s_vec_len(vm, st, callee, args, dest, ret_bb, m):
    v = vm.load(st, args[0])
    return done(vm, st, dest, ret_bb, bv(len(v.items), 64))


def s_vec_extend(vm, st, callee, args, dest, ret_bb, m):
    itv, _ = get_iter(vm, st, args[1]) if not isinstance(args[1], VecV) else (IterV(args[1].items), None)

    def after(vm_, st_, nf, value):
        st_.frames.pop()
        v = vm_.load(st_, args[0])
        vm_.store(st_, args[0], VecV(v.items + value.items))
        return vm_.ret(st_, nf.dest, nf.ret_bb, UNIT)
    st.frames.append(NativeFrame('then', after, dest, ret_bb))
    return start_pull(vm, st, itv, ('collect',), None, None)


def s_vec_dedup(vm, st, callee, args, dest, ret_bb, m):
    """Vec::dedup: remove consecutive repeated elements (PartialEq); forks on symbolic equalities"""
    v = vm.load(st, args[0])
    items = list(v.items)

    def go(s, kept, rest):
        while rest:
            x = rest[0]
            rest = rest[1:]
            if not kept:
                kept = kept + [x]
                continue
            eq = values_eq(vm, s, kept[-1], x)
            if z3.is_true(eq):
                continue
            if z3.is_false(eq):
                kept = kept + [x]
                continue
            k1, k2, r = list(kept), kept + [x], list(rest)
            return fork_bool(vm, s, eq, lambda s_: go(s_, k1, r), lambda s_: go(s_, k2, r))
        vm.store(s, args[0], VecV(kept))
        return vm.ret(s, dest, ret_bb, UNIT)
    return go(st, [], items)


def s_vec_pop(vm, st, callee, args, dest, ret_bb, m):
    v = vm.load(st, args[0])
    if not v.items:
        return done(vm, st, dest, ret_bb, none())
    vm.store(st, args[0], VecV(v.items[:-1]))
    return done(vm, st, dest, ret_bb, some(v.items[-1]))


def s_vec_reverse(vm, st, callee, args, dest, ret_bb, m):
    p = args[0]
    if p.meta and p.meta[0] == 'slice':
        base = Ptr(p.cell, p.path)
        v = vm.load(st, base)
        a, n = p.meta[1], p.meta[2]
        items = list(v.items if isinstance(v, VecV) else v.fields)
        items[a:a + n] = reversed(items[a:a + n])
        vm.store(st, base, VecV(items) if isinstance(v, VecV) else Agg(v.variant, items, v.tag))
    else:
        v = vm.load(st, p)
        vm.store(st, p, VecV(tuple(reversed(v.items))))
    return done(vm, st, dest, ret_bb, UNIT)


def s_vec_clear(vm, st, callee, args, dest, ret_bb, m):
    vm.store(st, args[0], VecV(()))
    return done(vm, st, dest, ret_bb, UNIT)


def s_vec_truncate(vm, st, callee, args, dest, ret_bb, m):
    v = vm.load(st, args[0])
    n = simp(args[1])
    if not z3.is_bv_value(n):
        raise Unsupported('truncate with symbolic length')
    vm.store(st, args[0], VecV(v.items[:n.as_long()]))
    return done(vm, st, dest, ret_bb, UNIT)


def s_vec_insert(vm, st, callee, args, dest, ret_bb, m):
    v = vm.load(st, args[0])
    n = simp(args[1])
    if not z3.is_bv_value(n):
        raise Unsupported('insert at symbolic index')
    i = n.as_long()
    if i > len(v.items):
        return Outcome('panic', st, msg='insertion index out of bounds')
    vm.store(st, args[0], VecV(v.items[:i] + (args[2],) + v.items[i:]))
    return done(vm, st, dest, ret_bb, UNIT)


def s_vec_remove(vm, st, callee, args, dest, ret_bb, m):
    v = vm.load(st, args[0])
    n = simp(args[1])
    if not z3.is_bv_value(n):
        raise Unsupported('remove at symbolic index')
    i = n.as_long()
    if i >= len(v.items):
        return Outcome('panic', st, msg='removal index out of bounds')
    vm.store(st, args[0], VecV(v.items[:i] + v.items[i + 1:]))
    return done(vm, st, dest, ret_bb, v.items[i])


def s_iter_skip_take(kind):
    def h(vm, st, callee, args, dest, ret_bb, m):
        itv, _ = get_iter(vm, st, args[0])
        n = simp(args[1])
        if not z3.is_bv_value(n) or itv.stages:
            raise Unsupported(f'{kind} on adapted iterator / symbolic count')
        k = n.as_long()
        items = itv.items[k:] if kind == 'skip' else itv.items[:k]
        return done(vm, st, dest, ret_bb, IterV(items, (), itv.count))
    h.__name__ = f's_iter_{kind}'
    return h


def s_vec_index(vm, st, callee, args, dest, ret_bb, m):
    items = slice_items(vm, st, args[0])
    idx = simp(args[1])
    if not z3.is_bv_value(idx):
        raise Unsupported('Index with a symbolic index')
    i = idx.as_long()
    if i >= len(items):
        return Outcome('panic', st, msg='index out of bounds')
    return done(vm, st, dest, ret_bb, items[i])


def s_vec_as_slice(vm, st, callee, args, dest, ret_bb, m):
    v = vm.load(st, args[0])
    return done(vm, st, dest, ret_bb, Ptr(args[0].cell, args[0].path, ('slice', 0, len(v.items))))


def s_from_elem(vm, st, callee, args, dest, ret_bb, m):
    n = simp(args[1])
    if not z3.is_bv_value(n):
        raise Unsupported('vec![x; n] with symbolic n')
    return done(vm, st, dest, ret_bb, VecV([args[0]] * n.as_long()))


def s_into_vec(vm, st, callee, args, dest, ret_bb, m):
    # <[T]>::into_vec(Box<[T; N]>) from vec![a, b]
    b = args[0]
    inner = box_ptr(b) if isinstance(b, Agg) and b.tag == 'box' else b
    inner = deref(vm, st, inner)
    return done(vm, st, dest, ret_bb, VecV(inner.fields))


def mk_box(st, v):
    p = Ptr(st.alloc(v), ())
    return Agg(None, [Agg(None, [p, Agg(None, ())]), Agg(None, ())], 'box')


def box_ptr(b):
    return b.fields[0].fields[0]


def s_box_new(vm, st, callee, args, dest, ret_bb, m):
    return done(vm, st, dest, ret_bb, mk_box(st, args[0]))


def s_box_new_uninit(vm, st, callee, args, dest, ret_bb, m):
    return done(vm, st, dest, ret_bb, mk_box(st, None))


def s_box_into_vec(vm, st, callee, args, dest, ret_bb, m):
    # box_assume_init_into_vec_unsafe(Box<MaybeUninit<[T; N]>>): MaybeUninit.value -> ManuallyDrop -> MaybeDangling -> [T; N]
    v = vm.load(st, box_ptr(args[0]))
    try:
        arr = v.fields[1].fields[0].fields[0]
    except (AttributeError, IndexError, TypeError):
        raise Unsupported('vec![..] layout')
    return done(vm, st, dest, ret_bb, VecV(arr.fields))


def s_box_as_mut(vm, st, callee, args, dest, ret_bb, m):
    b = vm.load(st, args[0])
    return done(vm, st, dest, ret_bb, box_ptr(b))


def s_map_get(vm, st, callee, args, dest, ret_bb, m):
    mp = vm.load(st, args[0])
    key = deref(vm, st, args[1])
    conds = [(values_eq(vm, st, k, key), some(Ptr(c, ()))) for k, c in mp.data]
    misses = [z3.Not(c) for c, _ in conds]
    conds.append((simp(z3.And(*misses)) if misses else mk_bool(True), none()))
    feas = [(c, v) for c, v in conds if vm.feasible(st, c)]
    outs = []
    for c, v in feas[1:]:
        s2 = st.clone()
        s2.pc.append(simp(c))
        r = vm.ret(s2, dest, ret_bb, v)
        outs.append(s2 if r is None else _Finished(r))
    if len(feas) > 1:
        st.pc.append(simp(feas[0][0]))
    r = vm.ret(st, dest, ret_bb, feas[0][1])
    if len(feas) == 1:
        return r
    outs.append(st if r is None else _Finished(r))
    return outs


def s_map_insert(vm, st, callee, args, dest, ret_bb, m):
    """BTreeMap::insert with a key that is concretely new or concretely present (keys here are ids)"""
    mp = vm.load(st, args[0])
    key = args[1]
    for k, c in mp.data:
        eq = values_eq(vm, st, k, key)
        if z3.is_true(eq):
            old = st.mem[c]
            st.mem[c] = args[2]
            return done(vm, st, dest, ret_bb, some(old))
        if not z3.is_false(eq):
            raise Unsupported('BTreeMap::insert with a symbolic key')
    vm.store(st, args[0], Opaque('map', mp.data + ((key, st.alloc(args[2])),)))
    return done(vm, st, dest, ret_bb, none())


def s_default(vm, st, callee, args, dest, ret_bb, m):
    t = callee
    if t.startswith('<Vec<') or t.startswith('<std::vec::Vec<'):
        return done(vm, st, dest, ret_bb, VecV(()))
    if 'BTreeMap<' in t.split(' as ')[0]:
        return done(vm, st, dest, ret_bb, Opaque('map', ()))
    if 'BTreeSet<' in t.split(' as ')[0]:
        return done(vm, st, dest, ret_bb, Opaque('set', ()))
    if t.startswith('<Option<') or t.startswith('<std::option::Option<'):
        return done(vm, st, dest, ret_bb, none())
    if t.startswith('<bool '):
        return done(vm, st, dest, ret_bb, mk_bool(False))
    mi = re.match(r'^<([ui](8|16|32|64|size)) as', t)
    if mi:
        from vm import INT_W
        return done(vm, st, dest, ret_bb, bv(0, INT_W[mi.group(1)]))
    if t.startswith('<std::string::String ') or t.startswith('<String '):
        return done(vm, st, dest, ret_bb, StrV(''))
    raise Unsupported(f'Default for {callee}')


def s_map_new(vm, st, callee, args, dest, ret_bb, m):
    return done(vm, st, dest, ret_bb, Opaque('map', ()))


def s_opt_as_mut(vm, st, callee, args, dest, ret_bb, m):
    return s_opt_as_ref(vm, st, callee, args, dest, ret_bb, m)


# ---------------------------------------------------------------- Option / Result / bool

def opt_cases(v):
    """[(cond, payload or NOVAL)] of an Option value"""
    if isinstance(v, SymEnum):
        w = v.discr.size()
        return [(v.discr == bv(0, w), NOVAL), (v.discr == bv(1, w), v.cases[1][0])]
    return [(mk_bool(True), NOVAL if v.variant == 0 else v.fields[0])]


def on_option(vm, st, v, on_none, on_some):
    """dispatch on an Option that may have a symbolic discriminant"""
    if isinstance(v, SymEnum):
        w = v.discr.size()
        payload = v.cases[1][0]
        return fork_bool(vm, st, v.discr == bv(1, w), lambda s: on_some(s, payload), on_none)
    if v.variant == 0:
        return on_none(st)
    return on_some(st, v.fields[0])


def s_opt_map(vm, st, callee, args, dest, ret_bb, m):
    def some_(s, payload):
        def after(vm_, st_, nf, value):
            st_.frames.pop()
            return vm_.ret(st_, nf.dest, nf.ret_bb, some(value))
        s.frames.append(NativeFrame('then', after, dest, ret_bb))
        vm.call_closure(s, args[1], [payload], None, None)
        return None
    return on_option(vm, st, args[0], lambda s: vm.ret(s, dest, ret_bb, none()), some_)


def s_tokens_to_string(vm, st, callee, args, dest, ret_bb, m):
    """<TokenStream as ToString>::to_string for a stream that consists of one abstract path token (options' serde path)"""
    ts = deref(vm, st, args[0])
    items = ts.items if isinstance(ts, Tokens) else ()
    if len(items) == 1 and items[0][0] == 'opaque' and items[0][1] == 'syn::Path':
        d = items[0][2]
        return done(vm, st, dest, ret_bb, StrV(d))
    raise Unsupported('to_string of a token stream')


def s_str_split_whitespace(vm, st, callee, args, dest, ret_bb, m):
    return concretize_str(vm, st, as_str(vm, st, args[0]), lambda s_, text: vm.ret(s_, dest, ret_bb, IterV(tuple(StrV(x) for x in text.split()))))


def s_iter_collect_string(vm, st, callee, args, dest, ret_bb, m):
    itv, _ = get_iter(vm, st, args[0])
    if itv.stages:
        raise Unsupported('collect::<String> behind iterator adapters')
    parts = [as_str(vm, st, x) for x in itv.items]
    if all(isinstance(p.s, str) for p in parts):
        return done(vm, st, dest, ret_bb, StrV(''.join(p.s for p in parts)))
    return done(vm, st, dest, ret_bb, StrV(z3.Concat(*[p.z() for p in parts])) if len(parts) > 1 else (parts[0] if parts else StrV('')))


def s_str_is_empty(vm, st, callee, args, dest, ret_bb, m):
    s_ = as_str(vm, st, args[0])
    if isinstance(s_.s, str):
        return done(vm, st, dest, ret_bb, mk_bool(s_.s == ''))
    return done(vm, st, dest, ret_bb, simp(s_.z() == z3.StringVal('')))


def s_opt_filter(vm, st, callee, args, dest, ret_bb, m):
    # Option<T>::filter(pred): Some(x) if pred(&x) else None
    def some_(s, payload):
        def after(vm_, st_, nf, value):
            st_.frames.pop()
            return fork_bool(vm_, st_, value,
                             lambda s2: vm_.ret(s2, nf.dest, nf.ret_bb, some(payload)),
                             lambda s2: vm_.ret(s2, nf.dest, nf.ret_bb, none()))
        s.frames.append(NativeFrame('then', after, dest, ret_bb))
        cell = s.alloc(payload)
        vm.call_closure(s, args[1], [Ptr(cell, ())], None, None)
        return None
    return on_option(vm, st, args[0], lambda s: vm.ret(s, dest, ret_bb, none()), some_)


def s_opt_and_then(vm, st, callee, args, dest, ret_bb, m):
    def some_(s, payload):
        vm.call_closure(s, args[1], [payload], dest, ret_bb)
        return None
    return on_option(vm, st, args[0], lambda s: vm.ret(s, dest, ret_bb, none()), some_)


def s_opt_unwrap_or(vm, st, callee, args, dest, ret_bb, m):
    return on_option(vm, st, args[0], lambda s: vm.ret(s, dest, ret_bb, args[1]), lambda s, p: vm.ret(s, dest, ret_bb, p))


def s_opt_unwrap_or_else(vm, st, callee, args, dest, ret_bb, m):
    def none_(s):
        vm.call_closure(s, args[1], [], dest, ret_bb)
        return None
    return on_option(vm, st, args[0], none_, lambda s, p: vm.ret(s, dest, ret_bb, p))


def s_opt_unwrap_or_default(vm, st, callee, args, dest, ret_bb, m):
    if 'bool' in callee:
        dflt = mk_bool(False)
    elif 'Vec<' in callee:
        dflt = VecV(())
    elif 'TokenStream' in callee:
        dflt = Tokens()
    else:
        mm = re.match(r'^Option::<(.*)>::unwrap_or_default$', callee)
        fn = vm.resolve_local(f'<{mm.group(1)} as Default>::default', []) if mm else None
        if fn is None:
            raise Unsupported(f'default for {callee}')

        def none_(s):
            vm.push_call(s, fn, [], dest, ret_bb)
            return None
        return on_option(vm, st, args[0], none_, lambda s, p: vm.ret(s, dest, ret_bb, p))
    return on_option(vm, st, args[0], lambda s: vm.ret(s, dest, ret_bb, dflt), lambda s, p: vm.ret(s, dest, ret_bb, p))


def s_opt_unwrap(vm, st, callee, args, dest, ret_bb, m):
    msg = 'called `Option::unwrap()` on a `None` value'
    if len(args) > 1 and isinstance(args[1], StrV):
        msg = str(args[1].s)
    return on_option(vm, st, args[0], lambda s: Outcome('panic', s, msg=msg), lambda s, p: vm.ret(s, dest, ret_bb, p))


def s_opt_is_some(vm, st, callee, args, dest, ret_bb, m):
    v = deref(vm, st, args[0])
    want_some = 'is_some' in callee
    if isinstance(v, SymEnum):
        c = v.discr == bv(1, v.discr.size())
        return done(vm, st, dest, ret_bb, simp(c if want_some else z3.Not(c)))
    return done(vm, st, dest, ret_bb, mk_bool((v.variant == 1) == want_some))


def s_opt_as_ref(vm, st, callee, args, dest, ret_bb, m):
    p = args[0]
    v = vm.load(st, p)
    if isinstance(v, SymEnum):
        return done(vm, st, dest, ret_bb, SymEnum(v.discr, {0: (), 1: (Ptr(p.cell, p.path + (('v', 1), 0)),)}))
    if v.variant == 0:
        return done(vm, st, dest, ret_bb, none())
    return done(vm, st, dest, ret_bb, some(Ptr(p.cell, p.path + (('v', 1), 0))))


def s_opt_as_deref(vm, st, callee, args, dest, ret_bb, m):
    # Option<String>::as_deref(&self) -> Option<&str>   /  Option<&String>...
    v = deref(vm, st, args[0]) if isinstance(args[0], Ptr) else args[0]

    def target(payload):
        inner = deref(vm, st, payload)
        if isinstance(inner, VecV) and isinstance(args[0], Ptr) and not isinstance(payload, Ptr):
            # Option<Vec<T>>::as_deref -> Option<&[T]>: a slice reference into the option's payload
            p0 = args[0]
            while isinstance(vm.load(st, p0), Ptr):
                p0 = vm.load(st, p0)
            return Ptr(p0.cell, p0.path + (('v', 1), 0), ('slice', 0, len(inner.items)))
        return inner
    if isinstance(v, SymEnum):
        return done(vm, st, dest, ret_bb, SymEnum(v.discr, {0: (), 1: (target(v.cases[1][0]),)}))
    if v.variant == 0:
        return done(vm, st, dest, ret_bb, none())
    return done(vm, st, dest, ret_bb, some(target(v.fields[0])))


def s_opt_copied(vm, st, callee, args, dest, ret_bb, m):
    v = args[0]
    if isinstance(v, SymEnum):
        return done(vm, st, dest, ret_bb, SymEnum(v.discr, {0: (), 1: (vm.load(st, v.cases[1][0]),)}))
    if v.variant == 0:
        return done(vm, st, dest, ret_bb, none())
    return done(vm, st, dest, ret_bb, some(vm.load(st, v.fields[0])))


def s_opt_ok_or_else(vm, st, callee, args, dest, ret_bb, m):
    def none_(s):
        def after(vm_, st_, nf, value):
            st_.frames.pop()
            return vm_.ret(st_, nf.dest, nf.ret_bb, Agg(1, [value], 'Result'))
        s.frames.append(NativeFrame('then', after, dest, ret_bb))
        vm.call_closure(s, args[1], [], None, None)
        return None
    return on_option(vm, st, args[0], none_, lambda s, p: vm.ret(s, dest, ret_bb, Agg(0, [p], 'Result')))


def s_opt_or_else(vm, st, callee, args, dest, ret_bb, m):
    # Option<T>::or_else(f): self when Some, else f()
    def none_(s):
        def after(vm_, st_, nf, value):
            st_.frames.pop()
            return vm_.ret(st_, nf.dest, nf.ret_bb, value)
        s.frames.append(NativeFrame('then', after, dest, ret_bb))
        vm.call_closure(s, args[1], [], None, None)
        return None
    return on_option(vm, st, args[0], none_, lambda s, p: vm.ret(s, dest, ret_bb, some(p)))


def s_try_branch(vm, st, callee, args, dest, ret_bb, m):
    # <Result<T,E> as Try>::branch -> ControlFlow<Result<Infallible,E>, T>  (Continue = 0, Break = 1)
    v = args[0]
    if isinstance(v, SymEnum):
        raise Unsupported('Try::branch on symbolic Result')
    if 'Option<' in callee.split(' as ')[0]:
        if v.variant == 1:
            return done(vm, st, dest, ret_bb, Agg(0, [v.fields[0]], 'ControlFlow'))
        return done(vm, st, dest, ret_bb, Agg(1, [Agg(0, (), 'Option')], 'ControlFlow'))
    if v.variant == 0:
        return done(vm, st, dest, ret_bb, Agg(0, [v.fields[0]], 'ControlFlow'))
    return done(vm, st, dest, ret_bb, Agg(1, [Agg(1, [v.fields[0]], 'Result')], 'ControlFlow'))


def s_from_residual(vm, st, callee, args, dest, ret_bb, m):
    v = args[0]
    if 'Option<' in callee.split(' as ')[0]:
        return done(vm, st, dest, ret_bb, none())
    return done(vm, st, dest, ret_bb, Agg(1, [v.fields[0]], 'Result'))


def s_identity(vm, st, callee, args, dest, ret_bb, m):
    return done(vm, st, dest, ret_bb, args[0])


def s_unit(vm, st, callee, args, dest, ret_bb, m):
    return done(vm, st, dest, ret_bb, UNIT)


def s_clone(vm, st, callee, args, dest, ret_bb, m):
    return done(vm, st, dest, ret_bb, vm.load(st, args[0]))


def s_eq(vm, st, callee, args, dest, ret_bb, m):
    r = values_eq(vm, st, args[0], args[1])
    if '::ne' in callee:
        r = simp(z3.Not(r))
    return done(vm, st, dest, ret_bb, r)


# ---------------------------------------------------------------- strings

def s_str_lit_to_owned(vm, st, callee, args, dest, ret_bb, m):
    return done(vm, st, dest, ret_bb, as_str(vm, st, args[0]))


def s_cow_from_str(vm, st, callee, args, dest, ret_bb, m):
    v = deref(vm, st, args[0])
    if isinstance(v, Agg) and v.tag == 'Cow':
        return done(vm, st, dest, ret_bb, v)
    owned = 'String' in callee.split(' as ')[0].split('>>')[0] and '&' not in callee.split(' as ')[0][:3]
    return done(vm, st, dest, ret_bb, Agg(1 if owned else 0, [as_str(vm, st, v)], 'Cow'))


def heck_result(vm, name, arg):
    """result of an uninterpreted string conversion (heck): one free String variable per (function, argument).
    (A z3 uninterpreted function over strings makes the sequence solver crawl; a free variable per
    syntactically distinct argument is the same abstraction for kernels that convert each name once.)"""
    memo = vm.__dict__.setdefault('heck_memo', {})
    if isinstance(arg, str):
        # the conversions are known exactly on single-word ASCII names (heck splits words at case changes and separators only)
        if re.fullmatch(r'[a-z][a-z0-9]*', arg):
            return arg if name == 'to_snake_case' else arg[0].upper() + arg[1:]
        if re.fullmatch(r'[A-Z][a-z0-9]*', arg):
            return arg.lower() if name == 'to_snake_case' else arg
        key = (name, 'c:' + arg)
    else:
        key = (name, arg.sexpr())
    if key not in memo:
        memo[key] = z3.String(f'{name}({key[1][:40]})#{len(memo)}')
        # remember what the fresh variable was computed from (dataflow queries of kernels: `sources_of`)
        vm.__dict__.setdefault('derived_from', {})[memo[key].sexpr()] = arg
    return memo[key]


def uf_str(name):
    def h(vm, st, callee, args, dest, ret_bb, m):
        s = as_str(vm, st, args[0])
        r = heck_result(vm, name, s.s)
        return done(vm, st, dest, ret_bb, StrV(r))
    h.__name__ = f's_uf_{name}'
    return h


def s_str_concat(vm, st, callee, args, dest, ret_bb, m):
    # <[&str]>::concat
    items = slice_items(vm, st, args[0])
    parts = [as_str(vm, st, vm.load(st, it)) for it in items]
    if all(isinstance(p.s, str) for p in parts):
        return done(vm, st, dest, ret_bb, StrV(''.join(p.s for p in parts)))
    return done(vm, st, dest, ret_bb, StrV(z3.Concat(*[p.z() for p in parts])))


def s_string_push_str(vm, st, callee, args, dest, ret_bb, m):
    cur = vm.load(st, args[0])
    add = as_str(vm, st, args[1])
    if isinstance(cur.s, str) and isinstance(add.s, str):
        new = StrV(cur.s + add.s)
    else:
        new = StrV(z3.Concat(cur.z(), add.z()))
    vm.store(st, args[0], new)
    return done(vm, st, dest, ret_bb, UNIT)


def _sort_key(vm, st, v):
    v = deref(vm, st, v)
    if isinstance(v, Opaque) and v.tag == 'ident':
        v = StrV(v.data)
    if isinstance(v, StrV):
        return v
    raise Unsupported(f'sort of {v!r}')


def s_slice_sort(vm, st, callee, args, dest, ret_bb, m):
    """<[T]>::sort / sort_unstable for short slices of strings / idents: one successor state per permutation, constrained
    by the lexicographic order of the keys (z3 `str.<=`); equal keys keep their order."""
    import itertools
    p = args[0]
    items = slice_items(vm, st, p)
    vals = [vm.load(st, it) for it in items]
    if len(vals) <= 1:
        return done(vm, st, dest, ret_bb, UNIT)
    if len(vals) > 3:
        raise Unsupported('sort of more than 3 symbolic strings')
    keys = [_sort_key(vm, st, v) for v in vals]
    if all(isinstance(k.s, str) for k in keys):
        order = sorted(range(len(vals)), key=lambda i: keys[i].s.encode())
        for it, i in zip(items, order):
            vm.store(st, it, vals[i])
        return done(vm, st, dest, ret_bb, UNIT)
    # symbolic keys: z3's `str.<` makes the sequence solver crawl (minutes, then unknown), and no kernel depends on *which*
    # order the bytes induce - only on the same keys being ordered the same way every time.  The order is therefore an
    # arbitrary total order: one Boolean per unordered pair of distinct key terms, reused whenever the pair is compared.
    ords = vm.__dict__.setdefault('sort_order_vars', {})

    def lt(a, b):
        ka, kb = keys[a], keys[b]
        if isinstance(ka.s, str) and isinstance(kb.s, str):
            return mk_bool(ka.s.encode() < kb.s.encode() or (ka.s == kb.s and a < b))
        sa, sb = ka.z().sexpr(), kb.z().sexpr()
        if sa == sb:
            return mk_bool(a < b)
        first, second = sorted([sa, sb])
        v = ords.setdefault((first, second), z3.Bool(f'sorts_before#{len(ords)}'))
        return v if sa == first else z3.Not(v)
    outs = []
    for perm in itertools.permutations(range(len(vals))):
        cs = [lt(perm[i], perm[j]) for i in range(len(perm)) for j in range(i + 1, len(perm))]
        cond = simp(z3.And(*cs))
        if not vm.feasible(st, cond):
            continue
        s2 = st.clone()
        s2.pc.append(cond)
        for it, i in zip(items, perm):
            vm.store(s2, it, vals[i])
        r = done(vm, s2, dest, ret_bb, UNIT)
        if r is None:
            outs.append(s2)
        elif isinstance(r, list):
            outs.extend(r)
        else:
            outs.append(_Finished(r))
    return outs


def s_string_push(vm, st, callee, args, dest, ret_bb, m):
    cur = vm.load(st, args[0])
    ch = z3.simplify(args[1]) if z3.is_expr(args[1]) else args[1]
    if not (z3.is_bv_value(ch)):
        raise Unsupported('String::push of a symbolic char')
    c = chr(ch.as_long())
    new = StrV(cur.s + c) if isinstance(cur.s, str) else StrV(z3.Concat(cur.z(), z3.StringVal(c)))
    vm.store(st, args[0], new)
    return done(vm, st, dest, ret_bb, UNIT)


def s_str_len(vm, st, callee, args, dest, ret_bb, m):
    s_ = as_str(vm, st, args[0])
    if isinstance(s_.s, str):
        return done(vm, st, dest, ret_bb, bv(len(s_.s.encode()), 64))
    # the length of a symbolic string: an unknown small number (int <-> bit-vector conversions of z3.Length are very slow
    # and no kernel depends on string lengths beyond 'does not overflow')
    ln = z3.FreshConst(z3.BitVecSort(64), 'strlen')
    st.pc.append(z3.ULT(ln, bv(1 << 32, 64)))
    return done(vm, st, dest, ret_bb, ln)


def s_cow_slice(vm, st, callee, args, dest, ret_bb, m):
    """Vec<T> / &[T] -> Cow<[T]>"""
    v = args[0]
    if isinstance(v, VecV):
        return done(vm, st, dest, ret_bb, Agg(1, [v], 'CowSlice'))
    return done(vm, st, dest, ret_bb, Agg(0, [v], 'CowSlice'))


def s_cow_slice_as_ref(vm, st, callee, args, dest, ret_bb, m):
    p = args[0]
    v = vm.load(st, p)
    inner = v.fields[0]
    if isinstance(inner, VecV):
        return done(vm, st, dest, ret_bb, Ptr(p.cell, p.path + (('v', v.variant), 0), ('slice', 0, len(inner.items))))
    return done(vm, st, dest, ret_bb, inner)


def s_str_join(vm, st, callee, args, dest, ret_bb, m):
    items = slice_items(vm, st, args[0])
    parts = [as_str(vm, st, vm.load(st, it)) for it in items]
    sep = as_str(vm, st, args[1])
    seq = []
    for i, p in enumerate(parts):
        if i:
            seq.append(sep)
        seq.append(p)
    seq = [x for x in seq if not (isinstance(x.s, str) and x.s == '')]
    if not seq:
        return done(vm, st, dest, ret_bb, StrV(''))
    if all(isinstance(x.s, str) for x in seq):
        return done(vm, st, dest, ret_bb, StrV(''.join(x.s for x in seq)))
    if len(seq) == 1:
        return done(vm, st, dest, ret_bb, seq[0])
    return done(vm, st, dest, ret_bb, StrV(z3.Concat(*[x.z() for x in seq])))


def s_str_starts_with(vm, st, callee, args, dest, ret_bb, m):
    s, pre = as_str(vm, st, args[0]), as_str(vm, st, args[1])
    if isinstance(s.s, str) and isinstance(pre.s, str):
        return done(vm, st, dest, ret_bb, mk_bool(s.s.startswith(pre.s)))
    return done(vm, st, dest, ret_bb, simp(z3.PrefixOf(pre.z(), s.z())))


def s_binary_search_str(vm, st, callee, args, dest, ret_bb, m):
    """<[&str]>::binary_search: specified under the sortedness precondition, which is
    checked concretely on the (constant) table.  Ok(i) iff table[i] == needle."""
    items = slice_items(vm, st, args[0])
    table = [as_str(vm, st, vm.load(st, it)) for it in items]
    if not all(isinstance(t.s, str) for t in table):
        raise Unsupported('binary_search over a symbolic table')
    names = [t.s for t in table]
    if any(a.encode() >= b.encode() for a, b in zip(names, names[1:])):
        # unsorted table: binary_search's result is unspecified -> report as a defect of the table
        st.notes.append(('unsorted-table', names))
        vm.table_unsorted = names
    needle = as_str(vm, st, vm.load(st, args[1]) if isinstance(args[1], Ptr) else args[1])
    vm.last_table = names
    if isinstance(needle.s, str):
        import bisect
        # exact model of the documented behaviour on a sorted table
        if needle.s in names and names == sorted(names, key=lambda x: x.encode()):
            return done(vm, st, dest, ret_bb, Agg(0, [bv(names.index(needle.s), 64)], 'Result'))
        if names == sorted(names, key=lambda x: x.encode()):
            return done(vm, st, dest, ret_bb, Agg(1, [bv(bisect.bisect_left([n.encode() for n in names], needle.s.encode()), 64)], 'Result'))
        # unsorted: emulate the real algorithm (size halving as in core)
        return done(vm, st, dest, ret_bb, _binsearch_concrete(names, needle.s))
    # symbolic needle: two branches - "member" (symbolic index tied to the needle) and "not a member"
    idx = z3.FreshConst(z3.BitVecSort(64), 'bs_idx')
    member = z3.Or(*[needle.z() == z3.StringVal(n) for n in names])
    hit = z3.Or(*[z3.And(idx == bv(i, 64), needle.z() == z3.StringVal(n)) for i, n in enumerate(names)])

    def found(s):
        s.pc.append(hit)
        return vm.ret(s, dest, ret_bb, Agg(0, [idx], 'Result'))

    def missing(s):
        return vm.ret(s, dest, ret_bb, Agg(1, [z3.FreshConst(z3.BitVecSort(64), 'bs_ins')], 'Result'))
    return fork_bool(vm, st, member, found, missing)


def _binsearch_concrete(names, needle):
    # core::slice::binary_search_by (1.7x): size-halving loop
    size = len(names)
    if size == 0:
        return Agg(1, [bv(0, 64)], 'Result')
    base = 0
    nb = needle.encode()
    while size > 1:
        half = size // 2
        mid = base + half
        if names[mid].encode() <= nb:
            base = mid
        size -= half
    if names[base].encode() == nb:
        return Agg(0, [bv(base, 64)], 'Result')
    return Agg(1, [bv(base + (1 if names[base].encode() < nb else 0), 64)], 'Result')


# ---------------------------------------------------------------- BTreeSet / BTreeMap as finite association lists

def s_set_new(vm, st, callee, args, dest, ret_bb, m):
    return done(vm, st, dest, ret_bb, Opaque('set', ()))


def s_set_insert(vm, st, callee, args, dest, ret_bb, m):
    s = vm.load(st, args[0])
    key = deref(vm, st, args[1]) if not z3.is_expr(args[1]) else args[1]
    present = _set_contains(vm, st, s, key)

    def was_there(s_):
        return vm.ret(s_, dest, ret_bb, mk_bool(False))

    def fresh(s_):
        cur = vm.load(s_, args[0])
        vm.store(s_, args[0], Opaque('set', cur.data + (key,)))
        return vm.ret(s_, dest, ret_bb, mk_bool(True))
    return fork_bool(vm, st, present, was_there, fresh)


def _set_contains(vm, st, s, key):
    cs = [values_eq(vm, st, k, key) for k in s.data]
    return simp(z3.Or(*cs)) if cs else mk_bool(False)


def s_set_len(vm, st, callee, args, dest, ret_bb, m):
    # insertions only add a key on the path where it differs from every stored key, so the stored keys are distinct
    s = vm.load(st, args[0])
    if m.group(1) == 'is_empty':
        return done(vm, st, dest, ret_bb, mk_bool(len(s.data) == 0))
    return done(vm, st, dest, ret_bb, bv(len(s.data), 64))


def s_set_contains(vm, st, callee, args, dest, ret_bb, m):
    s = vm.load(st, args[0])
    key = deref(vm, st, args[1])
    return done(vm, st, dest, ret_bb, _set_contains(vm, st, s, key))


# ---------------------------------------------------------------- tokens (quote / proc_macro2)

def s_ts_new(vm, st, callee, args, dest, ret_bb, m):
    return done(vm, st, dest, ret_bb, Tokens())


def _push(vm, st, ts_ptr, *items):
    ts = vm.load(st, ts_ptr)
    vm.store(st, ts_ptr, Tokens(ts.items + tuple(items)))


PUNCT = {'lt': '<', 'gt': '>', 'colon2': '::', 'colon': ':', 'comma': ',', 'pound': '#', 'eq': '=', 'semi': ';', 'dot': '.',
         'bang': '!', 'and': '&', 'star': '*', 'rarrow': '->', 'fat_arrow': '=>', 'underscore': '_', 'question': '?', 'or': '|',
         'shl': '<<', 'shr': '>>', 'add': '+', 'sub': '-', 'at': '@', 'dot2': '..', 'eq_eq': '==', 'ne': '!=', 'lifetime': "'"}


def s_push_punct(vm, st, callee, args, dest, ret_bb, m):
    name = m.group(1)
    if name == 'ident':
        _push(vm, st, args[0], ('ident', as_str(vm, st, args[1]).s))
    elif name == 'group':
        _push(vm, st, args[0], ('group', args[1].variant, args[2]))
    elif name == 'lifetime':
        _push(vm, st, args[0], ('lifetime', as_str(vm, st, args[1]).s))
    elif name in PUNCT:
        _push(vm, st, args[0], ('punct', PUNCT[name]))
    else:
        raise Unsupported(f'quote push_{name}')
    return done(vm, st, dest, ret_bb, UNIT)


def s_quote_parse(vm, st, callee, args, dest, ret_bb, m):
    # quote::__private::parse(&mut ts, "literal source")
    _push(vm, st, args[0], ('src', as_str(vm, st, args[1]).s))
    return done(vm, st, dest, ret_bb, UNIT)


def s_ident_new(vm, st, callee, args, dest, ret_bb, m):
    return done(vm, st, dest, ret_bb, Opaque('ident', as_str(vm, st, args[0]).s))


def tokens_of(vm, st, v):
    """token items a value contributes through ToTokens"""
    v = deref(vm, st, v)
    if isinstance(v, Tokens):
        return v.items
    if isinstance(v, Opaque) and v.tag == 'ident':
        return (('ident', v.data),)
    if isinstance(v, StrV):
        return (('lit', v.s),)
    if isinstance(v, Agg) and v.variant in (0, 1) and v.tag in (None, 'Option') and len(v.fields) <= 1:
        # Option<T: ToTokens>
        return tokens_of(vm, st, v.fields[0]) if v.variant == 1 else ()
    if isinstance(v, Agg) and v.tag == 'Cow':
        return (('lit', as_str(vm, st, v).s),)
    if isinstance(v, Agg) and v.tag == 'RepInterp':
        return tokens_of(vm, st, v.fields[0])
    if isinstance(v, Opaque):
        return (('opaque', v.tag, v.data),)
    if isinstance(v, Agg) and v.tag in ('Visibility', 'Path'):
        return (('opaque', v.tag, v.variant),)
    if z3.is_bool(v) or z3.is_bv(v):
        return (('lit', v),)
    raise Unsupported(f'ToTokens of {v!r}')


def s_to_tokens(vm, st, callee, args, dest, ret_bb, m):
    _push(vm, st, args[1], *tokens_of(vm, st, args[0]))
    return done(vm, st, dest, ret_bb, UNIT)


def s_to_token_stream(vm, st, callee, args, dest, ret_bb, m):
    return done(vm, st, dest, ret_bb, Tokens(tokens_of(vm, st, args[0])))


_fmt_counter = [0]


def s_fmt_opaque(vm, st, callee, args, dest, ret_bb, m):
    return done(vm, st, dest, ret_bb, Opaque('fmt', None))


def s_format(vm, st, callee, args, dest, ret_bb, m):
    """format!(..): some string; its content is irrelevant to every property (messages are not compared)"""
    _fmt_counter[0] += 1
    return done(vm, st, dest, ret_bb, StrV(z3.String(f'formatted#{_fmt_counter[0]}')))


def s_quote_into_iter(vm, st, callee, args, dest, ret_bb, m):
    # (iterator over the repeated items, HasIterator marker)
    return done(vm, st, dest, ret_bb, Agg(None, [IterV(slice_items(vm, st, args[0])), Opaque('HasIterator')]))


def s_opaque_marker(vm, st, callee, args, dest, ret_bb, m):
    return done(vm, st, dest, ret_bb, Opaque('marker'))


# ---- syn / proc_macro2 values used by the derive crate's attribute scanner
def _find_opaque(vm, st, v, tag, depth=6):
    if depth == 0:
        return None
    v = deref(vm, st, v)
    if isinstance(v, Opaque) and v.tag == tag:
        return v
    if isinstance(v, Agg):
        for x in v.fields:
            r = _find_opaque(vm, st, x, tag, depth - 1)
            if r is not None:
                return r
    return None


def s_attr_path(vm, st, callee, args, dest, ret_bb, m):
    p = _find_opaque(vm, st, args[0], 'synpath')
    if p is None:
        raise Unsupported('Attribute::path on a value without a path')
    return done(vm, st, dest, ret_bb, Ptr(st.alloc(p), ()))


def s_path_is_ident(vm, st, callee, args, dest, ret_bb, m):
    p = deref(vm, st, args[0])
    return done(vm, st, dest, ret_bb, str_eq(StrV(p.data), as_str(vm, st, args[1])))


def s_ident_eq_str(vm, st, callee, args, dest, ret_bb, m):
    i = deref(vm, st, args[0])
    return done(vm, st, dest, ret_bb, str_eq(StrV(i.data), as_str(vm, st, args[1])))


def s_ts_into_iter(vm, st, callee, args, dest, ret_bb, m):
    v = deref(vm, st, args[0])
    if isinstance(v, IterV):
        return done(vm, st, dest, ret_bb, v)
    return done(vm, st, dest, ret_bb, IterV(v.items))


def s_group_stream(vm, st, callee, args, dest, ret_bb, m):
    g = deref(vm, st, args[0])
    return done(vm, st, dest, ret_bb, g.data)


def concretize_str(vm, st, sv, then, limit=8):
    """continue with then(state, python str) for every value a symbolic string can take on this path (the string must range
    over a small finite set, e.g. an if-then-else over literals); forks the state"""
    if isinstance(sv.s, str):
        return then(st, sv.s)
    outs = []
    cur = st
    expr = sv.z()
    for _ in range(limit + 1):
        mdl = vm.model(cur)
        if mdl is None:
            break
        c = mdl.eval(expr, model_completion=True)
        if not z3.is_string_value(c):
            raise Unsupported('cannot concretise a string')
        s2 = cur.clone()
        s2.pc.append(expr == c)
        r = then(s2, c.as_string())
        if r is None:
            outs.append(s2)
        elif isinstance(r, list):
            outs.extend(r)
        else:
            outs.append(_Finished(r))
        cur = cur.clone()
        cur.pc.append(expr != c)
    else:
        raise Unsupported('string ranges over more than %d values' % limit)
    return outs


def s_str_split_char(vm, st, callee, args, dest, ret_bb, m):
    chv = simp(args[1]) if z3.is_expr(args[1]) else args[1]
    if not z3.is_bv_value(chv):
        raise Unsupported('split with a symbolic char')
    ch = chr(chv.as_long())
    return concretize_str(vm, st, as_str(vm, st, args[0]), lambda s_, text: vm.ret(s_, dest, ret_bb, IterV(tuple(StrV(x) for x in text.split(ch)))))


def s_str_trim(vm, st, callee, args, dest, ret_bb, m):
    return concretize_str(vm, st, as_str(vm, st, args[0]), lambda s_, text: vm.ret(s_, dest, ret_bb, StrV(text.strip())))


def s_trim_matches_char(vm, st, callee, args, dest, ret_bb, m):
    """str::trim_matches / trim_start_matches / trim_end_matches with a `char` pattern"""
    which = m.group(1)
    s_ = as_str(vm, st, args[0])
    chv = simp(args[1]) if z3.is_expr(args[1]) else args[1]
    if not z3.is_bv_value(chv):
        raise Unsupported('trim_matches with a symbolic char')
    ch = chr(chv.as_long())
    if isinstance(s_.s, str):
        r = s_.s.strip(ch) if which == 'trim_matches' else s_.s.lstrip(ch) if which == 'trim_start_matches' else s_.s.rstrip(ch)
        return done(vm, st, dest, ret_bb, StrV(r))
    kept = z3.FreshConst(z3.StringSort(), 'trim_kept')
    lead = z3.FreshConst(z3.StringSort(), 'trim_lead') if which != 'trim_end_matches' else z3.StringVal('')
    tail = z3.FreshConst(z3.StringSort(), 'trim_tail') if which != 'trim_start_matches' else z3.StringVal('')
    cs = [s_.z() == z3.Concat(lead, kept, tail)]
    for x in (lead, tail):
        if not z3.is_string_value(x):
            cs.append(z3.InRe(x, z3.Star(z3.Re(ch))))
    if which != 'trim_end_matches':
        cs.append(z3.Not(z3.PrefixOf(z3.StringVal(ch), kept)))
    if which != 'trim_start_matches':
        cs.append(z3.Not(z3.SuffixOf(z3.StringVal(ch), kept)))
    st.pc += cs
    return done(vm, st, dest, ret_bb, StrV(kept))


def s_literal_to_string(vm, st, callee, args, dest, ret_bb, m):
    """source text of a literal token: an abstract string tied to the literal it came from"""
    lit = deref(vm, st, args[0])
    memo = vm.__dict__.setdefault('lit_src', {})
    key = lit.data.sexpr() if z3.is_expr(lit.data) else 'c:' + str(lit.data)
    if key not in memo:
        memo[key] = (z3.String(f'literal_source#{len(memo)}'), lit.data)
    return done(vm, st, dest, ret_bb, StrV(memo[key][0]))


def s_parse_litstr(vm, st, callee, args, dest, ret_bb, m):
    src = as_str(vm, st, args[0])
    for _k, (srcvar, value) in vm.__dict__.get('lit_src', {}).items():
        if z3.is_expr(src.s) and src.s.eq(srcvar):
            return done(vm, st, dest, ret_bb, Agg(0, [Opaque('litstr', value)], 'Result'))
    raise Unsupported('syn::parse_str::<LitStr> on a string that is not the source of a known literal')


def s_litstr_value(vm, st, callee, args, dest, ret_bb, m):
    l = deref(vm, st, args[0])
    return done(vm, st, dest, ret_bb, StrV(l.data))


def s_syn_error(vm, st, callee, args, dest, ret_bb, m):
    return done(vm, st, dest, ret_bb, Opaque('synerr'))


def s_span(vm, st, callee, args, dest, ret_bb, m):
    return done(vm, st, dest, ret_bb, Opaque('span'))


TABLE = [
    # iterators
    (r'^core::slice::<impl \[.*\]>::iter$', s_slice_iter),
    (r'^core::slice::<impl \[.*\]>::iter_mut$', s_slice_iter),
    (r' as IntoIterator>::into_iter$', s_into_iter_self),
    (r' as Iterator>::rev$', s_iter_adapter('rev')),
    (r' as Iterator>::map::<', s_iter_adapter('map')),
    (r' as Iterator>::filter::<', s_iter_adapter('filter')),
    (r' as Iterator>::filter_map::<', s_iter_adapter('filter_map')),
    (r' as Iterator>::flat_map::<', s_iter_adapter('flat_map')),
    (r' as Iterator>::enumerate$', s_iter_adapter('enumerate')),
    (r' as Iterator>::copied::<', s_iter_adapter('copied')),
    (r' as Iterator>::cloned::<', s_iter_adapter('cloned')),
    (r' as Iterator>::next$', s_iter_consumer('next')),
    (r' as DoubleEndedIterator>::next_back$', None),
    (r' as Iterator>::any::<', s_iter_consumer('any')),
    (r' as Iterator>::all::<', s_iter_consumer('all')),
    (r' as Iterator>::find::<', s_iter_consumer('find')),
    (r' as Iterator>::find_map::<', s_iter_consumer('find_map')),
    (r' as Iterator>::position::<', s_iter_consumer('position')),
    (r' as Iterator>::rposition::<', s_iter_rposition),
    (r'^<\{closure@.*\} as std::ops::(Fn|FnMut|FnOnce)<\(.*\)>>::(call|call_mut|call_once)$', s_closure_call),
    (r'^<(?:Vec<.*>|\[.*\]) as std::ops::Index<std::ops::(RangeFrom|RangeTo|Range)<usize>>>::index$', s_index_range),
    (r' as Iterator>::for_each::<', s_iter_consumer('for_each')),
    (r' as Iterator>::collect::<Vec<', s_iter_consumer('collect')),
    (r' as Iterator>::count$', s_iter_consumer('count')),
    (r' as Iterator>::last$', s_iter_consumer('last')),
    (r' as Iterator>::fold::<', s_iter_consumer('fold')),
    # slices / vec
    (r'^core::slice::<impl \[.*\]>::first$', s_slice_first),
    (r'^core::slice::<impl \[.*\]>::last$', s_slice_last),
    (r'^core::slice::<impl \[.*\]>::len$', s_slice_len),
    (r'^core::slice::<impl \[.*\]>::is_empty$', s_slice_is_empty),
    (r'^core::slice::<impl \[.*\]>::contains$', s_slice_contains),
    (r'^core::slice::<impl \[.*\]>::get::<usize>$', s_slice_get),
    (r'^core::slice::<impl \[&str\]>::binary_search$', s_binary_search_str),
    (r'^(std::slice|alloc::slice|std::vec)::<impl \[.*\]>::into_vec', s_into_vec),
    (r'^(std::|alloc::)?slice::<impl \[&str\]>::concat::<str>$', s_str_concat),
    (r'^Vec::<.*>::(new|with_capacity)$', s_vec_new),
    (r'^Vec::<.*>::push$', s_vec_push),
    (r'^Vec::<.*>::extend_from_slice$', s_vec_extend_from_slice),
    (r'^Vec::<.*>::len$', s_vec_len),
    (r'^Vec::<.*>::is_empty$', s_slice_is_empty),
    (r'^Vec::<.*>::as_slice$', s_vec_as_slice),
    (r'^<Vec<.*> as (std::ops::)?Index(Mut)?<usize>>::index(_mut)?$', s_vec_index),
    (r'^Vec::<.*>::dedup$', s_vec_dedup),
    (r'^Vec::<.*>::pop$', s_vec_pop),
    (r'^Vec::<.*>::clear$', s_vec_clear),
    (r'^Vec::<.*>::truncate$', s_vec_truncate),
    (r'^Vec::<.*>::insert$', s_vec_insert),
    (r'^Vec::<.*>::remove$', s_vec_remove),
    (r'^core::slice::<impl \[.*\]>::reverse$', s_vec_reverse),
    (r' as Iterator>::skip$', s_iter_skip_take('skip')),
    (r' as Iterator>::take$', s_iter_skip_take('take')),
    (r'^<Vec<.*> as Extend<.*>>::extend::<', s_vec_extend),
    (r'^std::vec::from_elem::<', s_from_elem),
    (r'^(std::boxed::)?Box::<.*>::new$', s_box_new),
    (r'^(std::boxed::)?Box::<.*>::new_uninit$', s_box_new_uninit),
    (r'^std::boxed::box_assume_init_into_vec_unsafe::<', s_box_into_vec),
    (r'^<std::boxed::Box<.*> as AsMut<.*>>::as_mut$', s_box_as_mut),
    (r'^<std::boxed::Box<.*> as AsRef<.*>>::as_ref$', s_box_as_mut),
    (r'^BTreeMap::<.*>::get::<', s_map_get),
    (r'^BTreeMap::<.*>::insert$', s_map_insert),
    (r'^BTreeMap::<.*>::new$', s_map_new),
    (r'^<(Vec|std::vec::Vec|BTreeMap|std::collections::BTreeMap|BTreeSet|std::collections::BTreeSet|Option|std::option::Option|bool|String|std::string::String|[ui](8|16|32|64|size))\b.* as (std::default::)?Default>::default$', s_default),
    (r'^Option::<.*>::as_mut$', s_opt_as_mut),
    (r'^<<T as Text<\'_>>::Value as AsRef<str>>::as_ref$', s_deref_id),
    (r'^<(Vec<.*>|(std::string::)?String|Cow<.*>|&.*|std::boxed::Box<.*>) as (std::ops::)?(__)?Deref(Mut)?>::deref(_mut)?$', s_deref_id),
    (r'^core::slice::<impl \[.*\]>::get_mut::<usize>$', s_slice_get),
    (r'^<(Vec<.*>|std::string::String|Cow<.*>|str|&str) as AsRef<(str|\[.*\])>>::as_ref$', s_deref_id),
    (r'^std::string::String::as_str$', s_deref_id),
    (r'^<.* as Borrow<.*>>::borrow$', s_deref_id),
    # Option / Result
    (r'^Option::<.*>::map::<', s_opt_map),
    (r'^Option::<.*>::and_then::<', s_opt_and_then),
    (r'^Option::<.*>::filter::<', s_opt_filter),
    (r'^Option::<.*>::unwrap_or$', s_opt_unwrap_or),
    (r'^Option::<.*>::unwrap_or_else::<', s_opt_unwrap_or_else),
    (r'^Option::<.*>::unwrap_or_default$', s_opt_unwrap_or_default),
    (r'^Option::<.*>::(unwrap|expect)$', s_opt_unwrap),
    (r'^Option::<.*>::(is_some|is_none)$', s_opt_is_some),
    (r'^Option::<.*>::as_ref$', s_opt_as_ref),
    (r'^Option::<.*>::as_deref$', s_opt_as_deref),
    (r'^Option::<&.*>::(copied|cloned)$', s_opt_copied),
    (r'^Option::<.*>::ok_or_else::<', s_opt_ok_or_else),
    (r'^Option::<.*>::or_else::<', s_opt_or_else),
    (r'^<(Result|Option)<.*> as (std::ops::)?Try>::branch$', s_try_branch),
    (r'^<(Result|Option)<.*> as (std::ops::)?FromResidual<.*>>::from_residual$', s_from_residual),
    # identity-like
    (r'^must_use::<', s_identity),
    (r'^<.* as Into<.*>>::into$', None),
    (r'^<.* as From<.*>>::from$', None),
    (r'^<.* as Clone>::clone$', s_clone),
    (r'^<(str|&str|std::string::String|Cow<.*>|&?\[?.*\]?) as PartialEq(<.*>)?>::(eq|ne)$', s_eq),
    (r'^std::mem::drop::<', s_unit),
    # strings
    (r'^<str as ToOwned>::to_owned$|^<str as ToString>::to_string$|^<std::string::String as From<&str>>::from$|^str::<impl str>::to_owned$|^std::string::<impl ToString for str>::to_string$', s_str_lit_to_owned),
    (r'^<str as heck::ToSnakeCase>::to_snake_case$|^<std::string::String as heck::ToSnakeCase>', uf_str('to_snake_case')),
    (r'^<str as heck::ToUpperCamelCase>::to_upper_camel_case$|^<std::string::String as heck::ToUpperCamelCase>', uf_str('to_upper_camel_case')),
    (r'^core::str::<impl str>::starts_with::<&str>$', s_str_starts_with),
    (r'^std::string::String::push_str$', s_string_push_str),
    (r'^std::string::String::push$', s_string_push),
    (r'^(core::)?slice::<impl \[.*\]>::(sort|sort_unstable)$', s_slice_sort),
    (r'^(std::|alloc::)?slice::<impl \[(std::string::String|&str)\]>::join::<&str>$', s_str_join),
    (r'^std::string::String::reserve$', s_unit),
    (r'^core::str::<impl str>::len$', s_str_len),
    (r'^std::string::String::len$', s_str_len),
    (r'^<(Vec<.*>|&\[.*\]) as Into<Cow<\'_, \[.*\]>>>::into$', s_cow_slice),
    (r'^<Cow<\'_, \[.*\]> as AsRef<\[.*\]>>::as_ref$', s_cow_slice_as_ref),
    # sets
    (r'^BTreeSet::<.*>::new$', s_set_new),
    (r'^BTreeSet::<.*>::insert$', s_set_insert),
    (r'^BTreeSet::<.*>::(len|is_empty)$', s_set_len),
    (r'^BTreeSet::<.*>::contains::<', s_set_contains),
    # tokens
    (r'^TokenStream::new$', s_ts_new),
    (r'^quote::__private::push_(\w+?)(_spanned)?$', s_push_punct),
    (r'^quote::__private::parse$', s_quote_parse),
    (r'^(proc_macro2::)?Ident::new$', s_ident_new),
    (r'^Span::call_site$', s_span),
    (r'^(syn::)?Attribute::path$', s_attr_path),
    (r'^syn::Path::is_ident::<', s_path_is_ident),
    (r'^<proc_macro2::Ident as PartialEq<.*>>::eq$', s_ident_eq_str),
    (r'^<proc_macro2::TokenStream as IntoIterator>::into_iter$', s_ts_into_iter),
    (r'^<proc_macro2::token_stream::IntoIter as IntoIterator>::into_iter$', s_ts_into_iter),
    (r'^proc_macro2::Group::stream$', s_group_stream),
    (r'^<proc_macro2::Literal as ToString>::to_string$', s_literal_to_string),
    (r'^core::str::<impl str>::(trim_matches|trim_start_matches|trim_end_matches)::<char>$', s_trim_matches_char),
    (r'^core::str::<impl str>::split::<char>$', s_str_split_char),
    (r'^core::str::<impl str>::trim$', s_str_trim),
    (r'^core::str::<impl str>::is_empty$', s_str_is_empty),
    (r'^core::str::<impl str>::split_whitespace$', s_str_split_whitespace),
    (r'^<(proc_macro2::)?TokenStream as ToString>::to_string$', s_tokens_to_string),
    (r' as Iterator>::collect::<(std::string::)?String>$', s_iter_collect_string),
    (r'^syn::parse_str::<LitStr>$', s_parse_litstr),
    (r'^LitStr::value$', s_litstr_value),
    (r'^syn::Error::new_spanned::<', s_syn_error),
    (r'^Vec::<.*>::is_empty$', s_slice_is_empty),
    (r' as quote::__private::ext::RepAsIteratorExt<.*>>::quote_into_iter$', s_quote_into_iter),
    (r'^<quote::__private::(ThereIsNoIteratorInRepetition|HasIterator) as std::ops::BitOr(<.*>)?>::bitor$', s_opaque_marker),
    (r'^core::fmt::rt::Argument::<.*>::new_(display|debug)::<', s_fmt_opaque),
    (r'^(core::fmt::|std::fmt::)?Arguments::<.*>::(new|new_v1|new_const|from_str)(::<.*>)?$', s_fmt_opaque),
    (r'^(alloc::fmt::|std::fmt::)?format$', s_format),
    (r' as quote::ToTokens>::to_tokens$', s_to_tokens),
    (r' as quote::ToTokens>::to_token_stream$', s_to_token_stream),
]


def s_into(vm, st, callee, args, dest, ret_bb, m):
    mm = re.match(r'^<(.*) as (?:Into|From)<(.*)>>::(into|from)$', callee)
    a, b = mm.group(1), mm.group(2)
    src, dst = (a, b) if mm.group(3) == 'into' else (b, a)
    v = args[0]
    if re.match(r"^Cow<'_, \[", dst):
        return s_cow_slice(vm, st, callee, args, dest, ret_bb, m)
    if dst.startswith('Cow<') or (src.startswith('impl Into<Cow') ):
        val = deref(vm, st, v)
        if isinstance(val, Agg) and val.tag == 'Cow':
            return done(vm, st, dest, ret_bb, val)
        owned = src.strip().startswith('std::string::String')
        return done(vm, st, dest, ret_bb, Agg(1 if owned else 0, [as_str(vm, st, v)], 'Cow'))
    if dst.strip() in ('std::string::String', 'String'):
        return done(vm, st, dest, ret_bb, as_str(vm, st, v))
    if re.match(r"^Cow<'_, \[", dst):
        return s_cow_slice(vm, st, callee, args, dest, ret_bb, m)
    if _strip_generics(src) == _strip_generics(dst) or dst.startswith('impl '):
        return done(vm, st, dest, ret_bb, v)
    if 'Box<dyn' in dst:
        return done(vm, st, dest, ret_bb, mk_box(st, v))
    raise Unsupported(f'conversion {callee}')


TABLE = [(p, (s_into if f is None and ('Into' in p or 'From' in p) else f)) for p, f in TABLE if not (f is None and 'next_back' in p)]
