"""mirsym VM: symbolic execution of parsed MIR with z3 (engine M, DESIGN.md 3.2).

Values are immutable Python objects; memory is a dict cell -> value that is
shallow-copied at forks.  Integers are z3 bit-vectors of their Rust width,
booleans z3 Bools, strings z3 Strings (or Python str when concrete).
"""
import os
import re
import sys
import time
import z3

import mir


class Unsupported(Exception):
    """a construct or callee the engine has no semantics for -> inconclusive"""


class PathLimit(Exception):
    pass


class NonTermination(PathLimit):
    pass


# ---------------------------------------------------------------- values

class Agg:
    __slots__ = ('variant', 'fields', 'tag')

    def __init__(self, variant, fields, tag=None):
        self.variant = variant
        self.fields = tuple(fields)
        self.tag = tag

    def __repr__(self):
        v = '' if self.variant is None else f'#{self.variant}'
        return f'Agg{v}{list(self.fields)}'


class SymEnum:
    """enum value with a symbolic discriminant; cases: {variant: fields tuple}"""
    __slots__ = ('discr', 'cases')

    def __init__(self, discr, cases):
        self.discr = discr
        self.cases = dict(cases)

    def __repr__(self):
        return f'SymEnum({self.discr}, {self.cases})'


class Ptr:
    __slots__ = ('cell', 'path', 'meta')

    def __init__(self, cell, path=(), meta=None):
        self.cell = cell
        self.path = tuple(path)
        self.meta = meta     # None | ('slice', start, length)

    def __repr__(self):
        return f'Ptr({self.cell},{list(self.path)}{"," + str(self.meta) if self.meta else ""})'

    def key(self):
        return (self.cell, self.path, self.meta)


class StrV:
    __slots__ = ('s',)

    def __init__(self, s):
        self.s = s

    def z(self):
        return z3.StringVal(self.s) if isinstance(self.s, str) else self.s

    def __repr__(self):
        return f'Str({self.s!r})'


class VecV:
    __slots__ = ('items',)

    def __init__(self, items):
        self.items = tuple(items)

    def __repr__(self):
        return f'Vec{list(self.items)}'


class Opaque:
    __slots__ = ('tag', 'data')

    def __init__(self, tag, data=None):
        self.tag = tag
        self.data = data

    def __repr__(self):
        return f'Opaque({self.tag},{self.data!r})'


class ClosureV:
    __slots__ = ('cid', 'fields')

    def __init__(self, cid, fields):
        self.cid = cid
        self.fields = tuple(fields)

    def __repr__(self):
        return f'Closure({self.cid},{list(self.fields)})'


class FnItem:
    __slots__ = ('name',)

    def __init__(self, name):
        self.name = name

    def __repr__(self):
        return f'Fn({self.name})'


class IterV:
    """lazy iterator: pending source items + pipeline stages"""
    __slots__ = ('items', 'stages', 'count')

    def __init__(self, items, stages=(), count=0):
        self.items = tuple(items)
        self.stages = tuple(stages)
        self.count = count

    def __repr__(self):
        return f'Iter({len(self.items)} items, {self.stages})'


class Tokens:
    __slots__ = ('items',)

    def __init__(self, items=()):
        self.items = tuple(items)

    def __repr__(self):
        return f'Tokens{list(self.items)}'


UNIT = Agg(None, ())


def bv(v, w):
    return z3.BitVecVal(v, w)


def is_conc(x):
    return z3.is_bv_value(x) or z3.is_true(x) or z3.is_false(x)


def simp(x):
    return z3.simplify(x)


INT_W = {'u8': 8, 'u16': 16, 'u32': 32, 'u64': 64, 'u128': 128, 'usize': 64, 'i8': 8, 'i16': 16, 'i32': 32, 'i64': 64, 'i128': 128,
         'isize': 64, 'char': 32}


def none():
    return Agg(0, ())


def some(v):
    return Agg(1, (v,))


def mk_bool(b):
    return z3.BoolVal(bool(b))


# ---------------------------------------------------------------- state

class Frame:
    __slots__ = ('fn', 'locals', 'bb', 'idx', 'dest', 'ret_bb', 'depth_key')

    def __init__(self, fn, locals_, dest, ret_bb):
        self.fn = fn
        self.locals = locals_
        self.bb = 0
        self.idx = 0
        self.dest = dest
        self.ret_bb = ret_bb
        self.depth_key = None

    def clone(self):
        f = Frame(self.fn, dict(self.locals), self.dest, self.ret_bb)
        f.bb, f.idx, f.depth_key = self.bb, self.idx, self.depth_key
        return f


class NativeFrame:
    """continuation of a library summary that calls back into interpreted code"""
    __slots__ = ('kind', 'data', 'dest', 'ret_bb')

    def __init__(self, kind, data, dest, ret_bb):
        self.kind = kind
        self.data = data
        self.dest = dest
        self.ret_bb = ret_bb

    def clone(self):
        return NativeFrame(self.kind, self.data, self.dest, self.ret_bb)


class State:
    def __init__(self):
        self.mem = {}
        self.next_cell = 1
        self.frames = []
        self.pc = []
        self.notes = []
        self.steps = 0
        self._kv = None
        self._pcset = None

    def clone(self):
        s = State()
        s.mem = dict(self.mem)
        s.next_cell = self.next_cell
        s.frames = [f.clone() for f in self.frames]
        s.pc = list(self.pc)
        s.notes = list(self.notes)
        s.steps = self.steps
        s._kv = None
        s._pcset = None
        return s

    def alloc(self, v=None):
        c = self.next_cell
        self.next_cell += 1
        self.mem[c] = v
        return c


class Outcome:
    def __init__(self, kind, state, value=None, msg=''):
        self.kind = kind      # 'return' | 'panic' | 'diverge'
        self.state = state
        self.value = value
        self.msg = msg


# ---------------------------------------------------------------- VM

class VM:
    def __init__(self, funcs, enums, max_paths=20000, max_steps=200000, max_depth=64):
        self.funcs = funcs
        self.enums = enums                   # enum name -> [variant names]
        self.solver = z3.Solver()
        self.solver.set('timeout', 30000)
        self.queries = 0
        self.solver_time = 0.0
        self.max_paths = max_paths
        self.max_steps = max_steps
        self.max_depth = max_depth
        self.summaries = []                  # (compiled regex, handler)
        self.by_last = {}
        self.closures = {}
        self.consts = {}
        self.used_functions = set()
        self.used_summaries = set()
        self.recursion_hook = None           # called with (state, fn, args) on calls
        self.overrides = []                  # kernel-specific stubs: (compiled regex, handler), consulted first
        self.loop_watch = []                 # substrings of function names whose re-entry is checked for non-termination
        for name, f in funcs.items():
            if f.is_const:
                self.consts[name] = f
                continue
            last = name.rsplit('::', 1)[-1]
            self.by_last.setdefault(last, []).append(f)
            if '{closure#' in last and f.params:
                m = re.search(r'\{closure@[^}]*\}', f.params[0][1])
                if m:
                    self.closures[m.group(0)] = f
        import summaries
        summaries.install(self)

    # ------------------------------------------------------------ solver
    def known_values(self, st):
        """(variable, constant) pairs that the path condition fixes syntactically: `x == c` conjuncts.
        Substituting them first answers most branch queries without a solver call."""
        cache = getattr(st, '_kv', None)
        if cache is not None and cache[0] == len(st.pc):
            return cache[1]
        pairs = []
        for c in st.pc:
            if z3.is_eq(c) and c.num_args() == 2:
                a, b = c.arg(0), c.arg(1)
                if z3.is_const(a) and a.decl().kind() == z3.Z3_OP_UNINTERPRETED and (z3.is_bv_value(b) or z3.is_string_value(b) or z3.is_true(b) or z3.is_false(b)):
                    pairs.append((a, b))
                elif z3.is_const(b) and b.decl().kind() == z3.Z3_OP_UNINTERPRETED and (z3.is_bv_value(a) or z3.is_string_value(a) or z3.is_true(a) or z3.is_false(a)):
                    pairs.append((b, a))
            elif z3.is_const(c) and z3.is_bool(c) and c.decl().kind() == z3.Z3_OP_UNINTERPRETED:
                pairs.append((c, z3.BoolVal(True)))
            elif z3.is_not(c) and z3.is_const(c.arg(0)) and c.arg(0).decl().kind() == z3.Z3_OP_UNINTERPRETED:
                pairs.append((c.arg(0), z3.BoolVal(False)))
        st._kv = (len(st.pc), pairs)
        return pairs

    def where(self, st):
        out = []
        for f in st.frames[-3:]:
            fn = getattr(f, 'fn', None)
            out.append(f'{getattr(fn, "name", type(f).__name__)}@bb{getattr(f, "bb", "?")}')
        return ' > '.join(out)

    def feasible(self, st, cond):
        c = simp(cond)
        if z3.is_true(c):
            return True
        if z3.is_false(c):
            return False
        have = getattr(st, '_pcset', None)
        if have is None or have[0] != len(st.pc):
            have = (len(st.pc), set(x.sexpr() for x in st.pc))
            st._pcset = have
        if c.sexpr() in have[1]:
            return True
        if simp(z3.Not(c)).sexpr() in have[1]:
            return False
        kv = self.known_values(st)
        if kv:
            c2 = simp(z3.substitute(c, *kv))
            if z3.is_true(c2):
                return True
            if z3.is_false(c2):
                return False
        t0 = time.time()
        r = self.solver.check(*(st.pc + [c]))
        dt = time.time() - t0
        self.solver_time += dt
        self.queries += 1
        if dt > 1.0 and os.environ.get('MIRSYM_SLOW'):
            sys.stderr.write(f'[slow query {dt:.1f}s -> {r}] cond={c.sexpr()[:300]!r} pc={len(st.pc)} at {self.where(st)}\n')
            if os.environ.get('MIRSYM_SLOW') == 'dump':
                so = z3.Solver()
                so.add(*st.pc)
                so.add(c)
                open(f'/tmp/mir/slow_{self.queries}.smt2', 'w').write(so.to_smt2())
        if r == z3.unknown:
            # the shared solver has a short per-query limit; under CPU contention string queries that normally take
            # milliseconds hit it - retry once in a fresh solver with a generous limit before giving up
            s2 = z3.Solver()
            s2.set('timeout', 240000)
            s2.add(*st.pc)
            s2.add(c)
            t0 = time.time()
            r = s2.check()
            self.solver_time += time.time() - t0
            self.queries += 1
        if r == z3.unknown:
            raise Unsupported('solver returned unknown')
        return r == z3.sat

    def model(self, st, extra=()):
        t0 = time.time()
        r = self.solver.check(*(st.pc + list(extra)))
        self.solver_time += time.time() - t0
        self.queries += 1
        if r != z3.sat:
            return None
        return self.solver.model()

    # ------------------------------------------------------------ memory
    def read_path(self, v, path, st):
        for step in path:
            v = self.project(v, step, st)
        return v

    def project(self, v, step, st):
        if isinstance(step, int):
            if isinstance(v, (Agg, ClosureV)):
                return v.fields[step]
            if isinstance(v, VecV):
                # Vec internals (buf, len) are never touched by crate code
                raise Unsupported('field projection into Vec')
            raise Unsupported(f'field {step} of {v!r}')
        k = step[0]
        if k == 'v':
            if isinstance(v, SymEnum):
                return Agg(step[1], v.cases[step[1]])
            return v
        if k == 'i':
            if isinstance(v, VecV):
                return v.items[step[1]]
            if isinstance(v, Agg):
                return v.fields[step[1]]
            raise Unsupported(f'index into {v!r}')
        raise Unsupported(f'project {step}')

    def write_path(self, v, path, new, st):
        if not path:
            return new
        step, rest = path[0], path[1:]
        if isinstance(step, int):
            if isinstance(v, Agg):
                fs = list(v.fields)
                fs[step] = self.write_path(fs[step], rest, new, st)
                return Agg(v.variant, fs, v.tag)
            if isinstance(v, ClosureV):
                fs = list(v.fields)
                fs[step] = self.write_path(fs[step], rest, new, st)
                return ClosureV(v.cid, fs)
            if v is None:
                # partially initialised aggregate
                fs = [None] * (step + 1)
                fs[step] = self.write_path(None, rest, new, st)
                return Agg(None, fs)
            raise Unsupported(f'write field of {v!r}')
        k = step[0]
        if k == 'v':
            if isinstance(v, SymEnum):
                cases = dict(v.cases)
                inner = self.write_path(Agg(step[1], cases[step[1]]), rest, new, st)
                cases[step[1]] = inner.fields
                return SymEnum(v.discr, cases)
            if v is None:
                inner = self.write_path(Agg(step[1], ()), rest, new, st)
                return inner
            return self.write_path(v, rest, new, st)
        if k == 'i':
            if isinstance(v, VecV):
                items = list(v.items)
                items[step[1]] = self.write_path(items[step[1]], rest, new, st)
                return VecV(items)
            if isinstance(v, Agg):
                fs = list(v.fields)
                fs[step[1]] = self.write_path(fs[step[1]], rest, new, st)
                return Agg(v.variant, fs, v.tag)
        raise Unsupported(f'write {step}')

    def load(self, st, ptr):
        return self.read_path(st.mem[ptr.cell], ptr.path, st)

    def store(self, st, ptr, val):
        st.mem[ptr.cell] = self.write_path(st.mem.get(ptr.cell), ptr.path, val, st)

    # place -> Ptr
    def place_ptr(self, st, fr, place):
        cell = fr.locals.get(place.local)
        if cell is None:
            cell = st.alloc(None)
            fr.locals[place.local] = cell
        ptr = Ptr(cell, ())
        for pj in place.proj:
            k = pj[0]
            if k == 'deref':
                v = self.load(st, ptr)
                if isinstance(v, Ptr):
                    ptr = v
                elif isinstance(v, Agg) and v.tag == 'box':
                    ptr = v.fields[0].fields[0]
                else:
                    raise Unsupported(f'deref of {v!r} in {fr.fn.name}')
            elif k == 'field':
                ptr = Ptr(ptr.cell, ptr.path + (pj[1],))
            elif k == 'downcast':
                vi = self.variant_index(pj[1], fr.fn.locals.get(place.local, ''), st, ptr)
                ptr = Ptr(ptr.cell, ptr.path + (('v', vi),))
            elif k == 'index':
                iv = self.load(st, Ptr(fr.locals[pj[1]], ()))
                iv = simp(iv)
                if not z3.is_bv_value(iv):
                    ptr = self.symbolic_index(st, ptr, iv)
                else:
                    ptr = self.index_ptr(st, ptr, iv.as_long())
            elif k == 'constindex':
                ptr = self.index_ptr(st, ptr, pj[1], pj[2])
            else:
                raise Unsupported(f'projection {pj}')
        return ptr

    def symbolic_index(self, st, ptr, iv):
        """element at a symbolic index of an array of strings / scalars: a read-only if-then-else value"""
        if ptr.meta and ptr.meta[0] == 'slice':
            n = ptr.meta[2]
        else:
            c = self.load(st, ptr)
            n = len(c.items) if isinstance(c, VecV) else len(c.fields)
        elems = [self.load(st, self.index_ptr(st, ptr, i)) for i in range(n)]
        if not elems:
            raise Unsupported('symbolic index into empty array')
        if all(isinstance(e, StrV) for e in elems):
            expr = elems[-1].z()
            for i in reversed(range(n - 1)):
                expr = z3.If(iv == bv(i, iv.size()), elems[i].z(), expr)
            val = StrV(expr)
        elif all(z3.is_expr(e) for e in elems):
            expr = elems[-1]
            for i in reversed(range(n - 1)):
                expr = z3.If(iv == bv(i, iv.size()), elems[i], expr)
            val = expr
        else:
            raise Unsupported('symbolic index into an array of aggregates')
        return Ptr(st.alloc(val), ())

    def index_ptr(self, st, ptr, i, from_end=False):
        if ptr.meta and ptr.meta[0] == 'slice':
            start, ln = ptr.meta[1], ptr.meta[2]
            if from_end:
                i = ln - i
            return Ptr(ptr.cell, ptr.path + (('i', start + i),))
        v = self.load(st, ptr)
        n = len(v.items) if isinstance(v, VecV) else len(v.fields)
        if from_end:
            i = n - i
        return Ptr(ptr.cell, ptr.path + (('i', i),))

    def variant_index(self, name, ty, st, ptr):
        # find the enum by variant name; same-named enums (e.g. graphql_parser's and the crate's `Selection`) are told
        # apart by the value's tag, else by the declared type of the local the place starts from
        cands = [(en, vs.index(name)) for en, vs in self.enums.items() if name in vs]
        idxs = set(i for _, i in cands)
        if len(idxs) == 1:
            return idxs.pop()
        v = self.load(st, ptr)
        if isinstance(v, Agg) and v.tag in self.enums and name in self.enums[v.tag]:
            return self.enums[v.tag].index(name)
        external = 'graphql_parser' in (ty or '')
        base = _base_type(ty or '')
        exact = [(en, i) for en, i in cands if en.split('::')[-1] == base and ('::' in en) == external]
        if exact:
            return exact[0][1]
        pref = [(en, i) for en, i in cands if ('::' in en) == external]
        if isinstance(v, SymEnum):
            pref = [(en, i) for en, i in pref if i in v.cases and max(v.cases) < len(self.enums[en])] or pref
        if len(set(i for _, i in pref)) == 1:
            return pref[0][1]
        if isinstance(v, SymEnum):
            # last resort (as before): the first enum whose variant range covers the value's cases
            for en, i in cands:
                if set(v.cases) <= set(range(len(self.enums[en]))) and i in v.cases:
                    return i
        raise Unsupported(f'ambiguous variant {name}: {cands}')

    # ------------------------------------------------------------ operands
    def operand(self, st, fr, op):
        if op.kind in ('copy', 'move'):
            ptr = self.place_ptr(st, fr, op.place)
            if ptr.meta and not op.place.proj:
                pass
            return self.load(st, ptr)
        return self.const(st, fr, op.const)

    def const(self, st, fr, c):
        c = c.strip()
        if c in ('true', 'false'):
            return mk_bool(c == 'true')
        if c == '()':
            return UNIT
        m = re.fullmatch(r'(-?\d+)_([ui](?:8|16|32|64|128|size))', c)
        if m:
            return bv(int(m.group(1)), INT_W[m.group(2)])
        if c.startswith('"'):
            return StrV(_unescape(c[1:c.rindex('"')]))
        if c.startswith("'"):
            ch = _unescape(c[1:-1])
            return bv(ord(ch), 32)
        if c.startswith('b"'):
            body = c[2:c.rindex('"')]
            return Opaque('bytes', body.encode('latin-1').decode('unicode_escape').encode('latin-1'))
        if c.startswith('ZeroSized: '):
            t = c[11:]
            mm = re.search(r'\{closure@[^}]*\}', t)
            if mm and t.startswith('{closure@'):
                return ClosureV(mm.group(0), ())
            return FnItem(t)
        if c.startswith('{closure@'):
            mm = re.search(r'\{closure@[^}]*\}', c)
            return ClosureV(mm.group(0), ())
        # named constants / promoteds: evaluate their body
        key = c
        cf = self.find_const(key, fr)
        if cf is not None:
            return self.eval_const(st, cf)
        if re.match(r'^[<\w]', c):
            return FnItem(c)
        raise Unsupported(f'const {c!r}')

    def find_const(self, key, fr):
        if key in self.consts:
            return self.consts[key]
        # call-site spelling vs header spelling: match on the tail
        tail = key.split('::')
        m = re.search(r'(promoted\[\d+\])$', key)
        if m:
            # promoted of the current function (possibly of the parent for closures)
            for name in (fr.fn.name,):
                k2 = f'{name}::{m.group(1)}'
                if k2 in self.consts:
                    return self.consts[k2]
            # generic spelling differences: compare with generics and lifetimes removed
            want = _strip_generics(key)
            for name, f in self.consts.items():
                if _strip_generics(name) == want or _strip_generics(name).endswith('::' + want.split('::', 1)[-1]) and name.endswith(m.group(1)) and _lastfn(name) == _lastfn(key):
                    return f
            return None
        last = tail[-1]
        for name, f in self.consts.items():
            if name == last or name.endswith('::' + last):
                if 'promoted' not in name:
                    return f
        return None

    def eval_const(self, st, cf):
        cache = getattr(self, '_const_cache', None)
        if cache is None:
            cache = self._const_cache = {}
        # constants are evaluated once into dedicated cells of the *initial* memory region
        if cf.name in cache:
            cells = cache[cf.name][1]
            for c, v in cells.items():
                if c not in st.mem:
                    st.mem[c] = v
            return cache[cf.name][0]
        sub = State()
        self._const_base = getattr(self, '_const_base', 10_000_000) + 1000
        sub.next_cell = self._const_base
        fr = Frame(cf, {}, None, None)
        sub.frames.append(fr)
        outs = self.run(sub, limit_paths=4)
        if len(outs) != 1 or outs[0].kind != 'return':
            raise Unsupported(f'const {cf.name} did not evaluate')
        val = outs[0].value
        cells = {c: v for c, v in outs[0].state.mem.items() if c >= 10_000_000}
        cache[cf.name] = (val, cells)
        for c, v in cells.items():
            st.mem[c] = v
        return val

    # ------------------------------------------------------------ rvalues
    def rvalue(self, st, fr, rv, dest_ty=''):
        k = rv.kind
        if k == 'use':
            return self.operand(st, fr, rv.a)
        if k == 'ref':
            return self.place_ptr(st, fr, rv.a)
        if k == 'discr':
            v = self.load(st, self.place_ptr(st, fr, rv.a))
            if isinstance(v, SymEnum):
                return z3.ZeroExt(64 - v.discr.size(), v.discr) if v.discr.size() < 64 else v.discr
            if isinstance(v, Agg) and v.variant is not None:
                return bv(v.variant, 64)
            raise Unsupported(f'discriminant of {v!r}')
        if k == 'len':
            ptr = self.place_ptr(st, fr, rv.a)
            if ptr.meta:
                return bv(ptr.meta[2], 64)
            v = self.load(st, ptr)
            return bv(len(v.items) if isinstance(v, VecV) else len(v.fields), 64)
        if k == 'tuple' or k == 'array':
            return Agg(None, [self.operand(st, fr, o) for o in rv.a])
        if k == 'repeat':
            v = self.operand(st, fr, rv.a)
            return Agg(None, [v] * rv.b)
        if k == 'closure':
            mm = re.search(r'\{closure@[^}]*\}', rv.a)
            return ClosureV(mm.group(0), [self.operand(st, fr, o) for o in rv.b])
        if k == 'adt':
            return self.adt(st, fr, rv, dest_ty)
        if k == 'binop':
            return self.binop(rv.a, self.operand(st, fr, rv.b), self.operand(st, fr, rv.c))
        if k == 'unop':
            v = self.operand(st, fr, rv.b)
            if rv.a == 'Not':
                return simp(z3.Not(v)) if z3.is_bool(v) else simp(~v)
            if rv.a == 'Neg':
                return simp(-v)
            if rv.a == 'PtrMetadata':
                if isinstance(v, Ptr) and v.meta:
                    return bv(v.meta[2], 64)
                if isinstance(v, StrV):
                    raise Unsupported('str length')
            raise Unsupported(f'unop {rv.a}')
        if k == 'cast':
            return self.cast(st, fr, rv)
        raise Unsupported(f'rvalue {k}: {rv.text}')

    def adt(self, st, fr, rv, dest_ty):
        path = rv.a
        fields = [self.operand(st, fr, o) for o in rv.b]
        base = _strip_generics(path)
        segs = base.split('::')
        last = segs[-1]
        # enum variant?
        if len(segs) >= 2:
            en = segs[-2]
            if en in self.enums and last in self.enums[en]:
                return Agg(self.enums[en].index(last), fields, en)
        if rv.c == 'unit' or rv.c == 'tuple':
            # variant imported by name (e.g. `Parenthesis`) or tuple struct
            cands = [(en, vs.index(last)) for en, vs in self.enums.items() if last in vs]
            if cands:
                # disambiguate through the destination type
                dt = _strip_generics(dest_ty).split('::')[-1]
                for en, i in cands:
                    if en == dt:
                        return Agg(i, fields, en)
                if len(set(i for _, i in cands)) == 1:
                    return Agg(cands[0][1], fields, cands[0][0])
                if len(segs) == 1 and rv.c == 'unit':
                    raise Unsupported(f'ambiguous unit variant {path}')
        return Agg(None, fields, last)

    def binop(self, op, a, b):
        if isinstance(a, Ptr) and isinstance(b, Ptr):
            if op == 'Eq':
                return mk_bool(a.key() == b.key())
            if op == 'Ne':
                return mk_bool(a.key() != b.key())
        if z3.is_bool(a) and z3.is_bool(b):
            r = {'Eq': lambda: a == b, 'Ne': lambda: a != b, 'BitAnd': lambda: z3.And(a, b), 'BitOr': lambda: z3.Or(a, b),
                 'BitXor': lambda: z3.Xor(a, b)}.get(op)
            if r is None:
                raise Unsupported(f'bool binop {op}')
            return simp(r())
        if not (z3.is_bv(a) and z3.is_bv(b)):
            raise Unsupported(f'binop {op} on {a!r}, {b!r}')
        if a.size() != b.size():
            if op in ('Shl', 'Shr', 'ShlUnchecked', 'ShrUnchecked'):
                b = z3.ZeroExt(a.size() - b.size(), b) if b.size() < a.size() else z3.Extract(a.size() - 1, 0, b)
            else:
                raise Unsupported(f'width mismatch in {op}')
        # signedness is not recoverable from the value; the kernels only use unsigned ids / lengths
        table = {
            'Eq': lambda: a == b, 'Ne': lambda: a != b, 'Lt': lambda: z3.ULT(a, b), 'Le': lambda: z3.ULE(a, b),
            'Gt': lambda: z3.UGT(a, b), 'Ge': lambda: z3.UGE(a, b), 'Add': lambda: a + b, 'Sub': lambda: a - b,
            'Mul': lambda: a * b, 'BitAnd': lambda: a & b, 'BitOr': lambda: a | b, 'BitXor': lambda: a ^ b,
            'Shl': lambda: a << b, 'Shr': lambda: z3.LShR(a, b), 'Div': lambda: z3.UDiv(a, b), 'Rem': lambda: z3.URem(a, b),
            'AddUnchecked': lambda: a + b, 'SubUnchecked': lambda: a - b, 'MulUnchecked': lambda: a * b,
        }
        if op in table:
            return simp(table[op]())
        if op == 'AddWithOverflow':
            w = a.size()
            wide = z3.ZeroExt(1, a) + z3.ZeroExt(1, b)
            return Agg(None, [simp(a + b), simp(z3.Extract(w, w, wide) == 1)])
        if op == 'SubWithOverflow':
            return Agg(None, [simp(a - b), simp(z3.ULT(a, b))])
        if op == 'MulWithOverflow':
            w = a.size()
            wide = z3.ZeroExt(w, a) * z3.ZeroExt(w, b)
            return Agg(None, [simp(a * b), simp(z3.Extract(2 * w - 1, w, wide) != 0)])
        raise Unsupported(f'binop {op}')

    def cast(self, st, fr, rv):
        v = self.operand(st, fr, rv.a)
        ty, kind = rv.b.strip(), rv.c
        if kind in ('IntToInt',):
            w = INT_W.get(ty)
            if w is None or not z3.is_bv(v):
                if z3.is_bool(v) and w:
                    return simp(z3.If(v, bv(1, w), bv(0, w)))
                raise Unsupported(f'cast to {ty}')
            if v.size() == w:
                return v
            if v.size() > w:
                return simp(z3.Extract(w - 1, 0, v))
            src_ty = fr.fn.locals.get(rv.a.place.local, '') if rv.a.place is not None and not rv.a.place.proj else ''
            if src_ty.startswith('i'):
                return simp(z3.SignExt(w - v.size(), v))
            return simp(z3.ZeroExt(w - v.size(), v))
        if kind == 'PointerCoercion':
            # Unsize: &[T; N] -> &[T]   (dyn coercions keep the pointer)
            if isinstance(v, Ptr) and ty.startswith('&') and '[' in ty and v.meta is None:
                tgt = self.load(st, v)
                if isinstance(tgt, Agg):
                    return Ptr(v.cell, v.path, ('slice', 0, len(tgt.fields)))
                if isinstance(tgt, VecV):
                    return Ptr(v.cell, v.path, ('slice', 0, len(tgt.items)))
            return v
        if kind in ('Transmute', 'PtrToPtr', 'FnPtrToPtr', 'Subtype'):
            return v
        raise Unsupported(f'cast kind {kind}')

    # ------------------------------------------------------------ calls
    def resolve_local(self, callee, argvals):
        """crate-local function for a call-site spelling, or None"""
        base = _strip_generics(callee)
        last = base.rsplit('::', 1)[-1]
        cands = self.by_last.get(last, [])
        if not cands:
            return None
        cands = [f for f in cands if len(f.params) == len(argvals)]
        if not cands:
            return None
        # exact header name
        for f in cands:
            if _strip_generics(f.name) == base:
                return f
        self_ty = None
        m = re.match(r'^<(.+?) as (.+)>::\w+$', base)
        if m:
            self_ty = m.group(1)
        elif '::' in base:
            self_ty = base.rsplit('::', 2)[-2] if base.count('::') >= 1 else None
        plain = [f for f in cands if '<impl at' not in f.name]
        impls = [f for f in cands if '<impl at' in f.name]
        if m is None and plain:
            # free function or module path: match on the tail of the path
            for f in plain:
                fn_base = _strip_generics(f.name)
                if fn_base == base or fn_base.endswith('::' + base) or base.endswith('::' + fn_base):
                    return f
            if len(plain) == 1 and not impls and '::' not in base:
                return plain[0]
        if self_ty is not None and impls:
            st_base = _base_type(self_ty)
            good = [f for f in impls if (f.params and _base_type(f.params[0][1]) == st_base) or (not f.params and _base_type(f.ret) == st_base)]
            if not good:
                # associated function without receiver (constructor-like): match on the return type
                good = [f for f in impls if _base_type(f.ret) == st_base or _base_type(re.sub(r'^(Option|Result)<', '', f.ret)) == st_base]
            if len(good) == 1:
                return good[0]
            if len(good) > 1:
                # several impls of the same method name on one type (e.g. trait + inherent): use the trait hint
                if m:
                    trait = _base_type(m.group(2))
                    g2 = [f for f in good if self.impl_trait(f) == trait]
                    if len(g2) == 1:
                        return g2[0]
                else:
                    g2 = [f for f in good if self.impl_trait(f) is None]
                    if len(g2) == 1:
                        return g2[0]
                raise Unsupported(f'ambiguous local callee {callee}: {[f.name for f in good]}')
        return None

    def impl_trait(self, f):
        """trait implemented by the `<impl at file:l:c: l:c>` block of f (None = inherent); filled by loader"""
        m = re.search(r'<impl at ([^>]*)>', f.name)
        return self.impl_traits.get(m.group(1)) if m and hasattr(self, 'impl_traits') else None

    def freeze(self, st, v, depth=6):
        """hashable snapshot of a value with pointers followed (bounded)"""
        if depth == 0:
            return '...'
        if isinstance(v, Ptr):
            try:
                tgt = self.load(st, v)
            except Exception:
                return ('ptr', v.cell, v.path)
            if v.meta:
                return ('slice', v.meta, self.freeze(st, tgt, depth - 1))
            return ('ref', self.freeze(st, tgt, depth - 1))
        if isinstance(v, Agg):
            return ('agg', v.variant, tuple(self.freeze(st, x, depth - 1) for x in v.fields))
        if isinstance(v, SymEnum):
            return ('sym', v.discr.sexpr(), tuple((k, tuple(self.freeze(st, x, depth - 1) for x in f)) for k, f in sorted(v.cases.items())))
        if isinstance(v, VecV):
            return ('vec', tuple(self.freeze(st, x, depth - 1) for x in v.items))
        if isinstance(v, StrV):
            return ('str', v.s if isinstance(v.s, str) else v.s.sexpr())
        if isinstance(v, Opaque):
            return ('opaque', v.tag, tuple(self.freeze(st, x, depth - 1) for x in v.data) if isinstance(v.data, tuple) else repr(v.data))
        if isinstance(v, ClosureV):
            return ('clo', v.cid, tuple(self.freeze(st, x, depth - 1) for x in v.fields))
        if z3.is_expr(v):
            return ('z3', v.sexpr())
        return repr(v)

    def push_call(self, st, fn, argvals, dest, ret_bb):
        if len(st.frames) >= self.max_depth:
            raise PathLimit(f'call depth {self.max_depth} exceeded in {fn.name}')
        if self.loop_watch and any(w in fn.name for w in self.loop_watch):
            key = (fn.name, tuple(self.freeze(st, a) for a in argvals))
            for fr0 in st.frames:
                if isinstance(fr0, Frame) and fr0.depth_key == key:
                    raise NonTermination(f'{fn.name} re-entered with the same arguments and the same reachable state: the recursion cannot terminate')
        else:
            key = None
        fr = Frame(fn, {}, dest, ret_bb)
        fr.depth_key = key
        for (idx, _ty), v in zip(fn.params, argvals):
            fr.locals[idx] = st.alloc(v)
        st.frames.append(fr)
        self.used_functions.add(fn.name)
        if self.recursion_hook:
            self.recursion_hook(self, st, fn, argvals)

    def call_closure(self, st, clo, args, dest, ret_bb, by_ref=True):
        """invoke a closure value with argument values (FnMut convention chosen from the header)"""
        if isinstance(clo, Ptr):
            cptr = clo
            clo = self.load(st, cptr)
        else:
            cptr = None
        if isinstance(clo, FnItem):
            return self.call_named(st, clo.name, list(args), dest, ret_bb)
        if not isinstance(clo, ClosureV):
            raise Unsupported(f'call of non-closure {clo!r}')
        fn = self.closures.get(clo.cid)
        if fn is None:
            raise Unsupported(f'closure body not found: {clo.cid}')
        p0 = fn.params[0][1]
        if p0.startswith('&'):
            if cptr is None:
                cptr = Ptr(st.alloc(clo), ())
            self_arg = cptr
        else:
            self_arg = clo
        # closure params beyond self: either spread or a tuple
        rest = fn.params[1:]
        if len(rest) == len(args):
            argv = [self_arg] + list(args)
        elif len(rest) == 1:
            argv = [self_arg, Agg(None, args)]
        else:
            raise Unsupported(f'closure arity {fn.name}')
        self.push_call(st, fn, argv, dest, ret_bb)

    def call_named(self, st, callee, argvals, dest, ret_bb):
        """returns None (continue in st) or a list of forked states"""
        # std's blanket `impl PartialEq<&B> for &A`: compare the referents
        mref = re.match(r"^<&(?:'\w+ )?(?:mut )?(.+) as PartialEq(?:<&(?:'\w+ )?(?:mut )?(.+)>)?>::(eq|ne)$", callee)
        if mref and all(isinstance(a, Ptr) for a in argvals):
            inner = f'<{mref.group(1)} as PartialEq>::{mref.group(3)}'
            return self.call_named(st, inner, [self.load(st, a) for a in argvals], dest, ret_bb)
        for rx, handler in self.overrides:
            mo = rx.search(callee)
            if mo:
                self.used_summaries.add('override:' + rx.pattern)
                return handler(self, st, callee, argvals, dest, ret_bb, mo)
        # trait-object call: dispatch on the concrete type of the receiver
        mdyn = re.match(r'^<dyn (.+?) as (.+?)>::(\w+)$', callee)
        if mdyn and argvals and isinstance(argvals[0], Ptr):
            recv = self.load(st, argvals[0])
            tag = getattr(recv, 'tag', None)
            if tag:
                return self.call_named(st, f'<{tag} as {mdyn.group(2)}>::{mdyn.group(3)}', argvals, dest, ret_bb)
        fn = self.resolve_local(callee, argvals)
        if fn is not None:
            self.push_call(st, fn, argvals, dest, ret_bb)
            return None
        norm = callee
        for a, b in (('std::option::Option', 'Option'), ('std::result::Result', 'Result'), ('std::vec::Vec', 'Vec'), ('std::borrow::Cow', 'Cow'),
                     ('std::collections::BTreeMap', 'BTreeMap'), ('std::collections::BTreeSet', 'BTreeSet'), ('std::iter::Iterator', 'Iterator'),
                     ('std::ops::Deref', 'Deref'), ('std::clone::Clone', 'Clone'), ('std::string::ToString', 'ToString'), ('std::cmp::PartialEq', 'PartialEq')):
            norm = norm.replace(a, b)
        callee = norm
        for rx, handler, name in self.summaries:
            m = rx.search(callee)
            if m:
                self.used_summaries.add(name)
                return handler(self, st, callee, argvals, dest, ret_bb, m)
        raise Unsupported(f'no semantics for callee `{callee}`')

    def ret(self, st, dest, ret_bb, value):
        """deliver a return value to the frame that is now on top"""
        if not st.frames:
            return Outcome('return', st, value)
        top = st.frames[-1]
        if isinstance(top, NativeFrame):
            import summaries
            return summaries.resume(self, st, top, value)
        if dest is not None:
            self.store(st, dest, value)
        if ret_bb is None:
            return Outcome('diverge', st, msg='call returned into a diverging edge')
        top.bb, top.idx = ret_bb, 0
        return None

    # ------------------------------------------------------------ main loop
    def run(self, st0, limit_paths=None):
        outs = []
        work = [st0]
        limit = limit_paths or self.max_paths
        while work:
            st = work.pop()
            if hasattr(st, 'outcome'):
                outs.append(st.outcome)
                continue
            try:
                res = self.run_path(st, work)
            except NonTermination as e:
                outs.append(Outcome('loop', st, msg=str(e)))
                continue
            except PathLimit as e:
                outs.append(Outcome('limit', st, msg=str(e)))
                continue
            if res is not None:
                outs.append(res)
            if len(outs) + len(work) > limit:
                raise PathLimit(f'more than {limit} paths')
        return outs

    def run_path(self, st, work):
        while True:
            st.steps += 1
            if st.steps > self.max_steps:
                raise PathLimit('step limit')
            fr = st.frames[-1]
            if isinstance(fr, NativeFrame):
                import summaries
                r = summaries.resume(self, st, fr, None, start=True)
                if isinstance(r, Outcome):
                    return r
                if isinstance(r, list):
                    work.extend(r)
                    return None
                continue
            blk = fr.fn.block(fr.bb)
            if fr.idx < len(blk.stmts):
                s = blk.stmts[fr.idx]
                fr.idx += 1
                if s.kind == 'assign':
                    v = self.rvalue(st, fr, s.rvalue, fr.fn.locals.get(s.place.local, '') if not s.place.proj else '')
                    self.store(st, self.place_ptr(st, fr, s.place), v)
                elif s.kind == 'setdiscr':
                    ptr = self.place_ptr(st, fr, s.place)
                    cur = self.load(st, ptr)
                    self.store(st, ptr, Agg(s.value, cur.fields if isinstance(cur, Agg) else (), getattr(cur, 'tag', None)))
                continue
            t = blk.term
            k = t.kind
            if k == 'goto':
                fr.bb, fr.idx = t.target, 0
            elif k == 'switch':
                v = self.operand(st, fr, t.operand)
                r = self.do_switch(st, fr, t, v, work)
                if r == 'forked':
                    return None
            elif k == 'return':
                val = self.load(st, Ptr(fr.locals[0], ())) if 0 in fr.locals else UNIT
                st.frames.pop()
                r = self.ret(st, fr.dest, fr.ret_bb, val)
                if isinstance(r, Outcome):
                    return r
                if isinstance(r, list):
                    work.extend(r)
                    return None
            elif k == 'drop':
                if t.target is None:
                    return Outcome('diverge', st, msg='drop without return edge')
                fr.bb, fr.idx = t.target, 0
            elif k == 'assert':
                c = self.operand(st, fr, t.operand)
                ok = c if t.expected else z3.Not(c)
                can_ok = self.feasible(st, ok)
                can_fail = self.feasible(st, z3.Not(ok))
                if can_fail:
                    if can_ok:
                        s2 = st.clone()
                        s2.pc.append(simp(z3.Not(ok)))
                        s2.frames[-1] = s2.frames[-1]
                        s2.notes.append(('assert-fail', t.msg))
                        work.append(_Panicked(s2, f'assertion failed: {t.msg}'))
                    else:
                        return Outcome('panic', st, msg=f'assertion failed: {t.msg}')
                if can_ok:
                    st.pc.append(simp(ok)) if can_fail else None
                    fr.bb, fr.idx = t.target, 0
            elif k == 'call':
                argvals = [self.operand(st, fr, a) for a in t.args]
                dest = self.place_ptr(st, fr, t.place)
                if re.search(r'(begin_panic|panic_fmt|panic::|panicking::panic|panic_display|expect_failed|unwrap_failed|panic_cold|unreachable_display|panic_explicit)', t.callee):
                    msg = ''
                    for a in argvals:
                        if isinstance(a, StrV):
                            msg = a.s if isinstance(a.s, str) else str(a.s)
                    return Outcome('panic', st, msg=msg or t.callee)
                r = self.call_named(st, t.callee, argvals, dest, t.target)
                if isinstance(r, Outcome):
                    return r
                if isinstance(r, list):
                    work.extend(r)
                    return None
            elif k == 'unreachable':
                return Outcome('diverge', st, msg=f'unreachable reached in {fr.fn.name} bb{fr.bb}')
            elif k == 'resume':
                return Outcome('panic', st, msg='unwind')
            else:
                raise Unsupported(f'terminator {k}')

    def do_switch(self, st, fr, t, v, work):
        if z3.is_bool(v):
            v = z3.If(v, bv(1, 8), bv(0, 8))
        v = simp(v)
        if z3.is_bv_value(v):
            n = v.as_long()
            for val, bb in t.targets:
                if val == n:
                    fr.bb, fr.idx = bb, 0
                    return None
            fr.bb, fr.idx = t.otherwise, 0
            return None
        w = v.size()
        branches = []
        others = []
        for val, bb in t.targets:
            cond = v == bv(val, w)
            others.append(v != bv(val, w))
            if self.feasible(st, cond):
                branches.append((cond, bb))
        if t.otherwise is not None:
            oc = z3.And(*others) if others else z3.BoolVal(True)
            if self.feasible(st, oc):
                branches.append((oc, t.otherwise))
        if not branches:
            raise Unsupported('switch with no feasible branch (inconsistent path condition)')
        for cond, bb in branches[1:]:
            s2 = st.clone()
            s2.pc.append(simp(cond))
            f2 = s2.frames[-1]
            f2.bb, f2.idx = bb, 0
            work.append(s2)
        cond, bb = branches[0]
        if len(branches) > 1:
            st.pc.append(simp(cond))
        fr.bb, fr.idx = bb, 0
        return None


class _Panicked(State):
    """a forked state that ends immediately in a panic (assert failure branch)"""

    def __init__(self, st, msg):
        super().__init__()
        self.__dict__.update(st.__dict__)
        self.panic_msg = msg


_orig_run_path = VM.run_path


def _run_path(self, st, work):
    if isinstance(st, _Panicked):
        return Outcome('panic', st, msg=st.panic_msg)
    return _orig_run_path(self, st, work)


VM.run_path = _run_path


# ---------------------------------------------------------------- text helpers

def _unescape(s):
    try:
        return bytes(s, 'utf-8').decode('unicode_escape').encode('latin-1').decode('utf-8') if '\\' in s else s
    except Exception:
        return s


def _strip_generics(s):
    """remove `::<...>` generic argument lists and lifetimes (balanced)"""
    out = []
    i, n = 0, len(s)
    while i < n:
        if s.startswith('::<', i):
            depth, j = 0, i + 2
            while j < n:
                if s[j] == '<':
                    depth += 1
                elif s[j] == '>' and s[j - 1] != '-':
                    depth -= 1
                    if depth == 0:
                        break
                j += 1
            i = j + 1
            continue
        out.append(s[i])
        i += 1
    return ''.join(out)


def _base_type(t):
    """`&'a mut schema::StoredInputType<'_>` -> `StoredInputType`"""
    t = t.strip()
    t = re.sub(r"^&(?:'\w+ )?(?:mut )?", '', t)
    t = re.sub(r'<.*$', '', t)
    return t.split('::')[-1].strip()


def _lastfn(name):
    segs = [s for s in name.split('::') if not s.startswith('promoted')]
    return segs[-1] if segs else ''
