"""Produce MIR for the working tree and load it into a VM."""
import hashlib
import os
import re
import shutil
import subprocess
import sys
import time

HERE = os.path.dirname(os.path.abspath(__file__))
sys.path.insert(0, HERE)
sys.path.insert(0, os.path.join(HERE, '..', 'lib'))
import mir  # noqa: E402
import vm as vmmod  # noqa: E402

BUILTIN_ENUMS = {
    'Option': ['None', 'Some'],
    'Result': ['Ok', 'Err'],
    'Cow': ['Borrowed', 'Owned'],
    'ControlFlow': ['Continue', 'Break'],
    'Ordering': ['Less', 'Equal', 'Greater'],
    'Delimiter': ['Parenthesis', 'Brace', 'Bracket', 'None'],
    'TokenTree': ['Group', 'Ident', 'Punct', 'Literal'],
    'Spacing': ['Alone', 'Joint'],
    'Meta': ['Path', 'List', 'NameValue'],
    'Visibility': ['Public', 'Restricted', 'Inherited'],
}

CRATES = {
    'codegen': 'graphql_client_codegen',
    'derive': 'graphql_query_derive',
    'client': 'graphql_client',
    'introspection': 'graphql-introspection-query',
}


def dump_mir(repo, scratch, crate_key):
    """copy the workspace members to scratch and dump MIR of one crate; returns (text, seconds)"""
    ws = os.path.join(scratch, 'mirws')
    if not os.path.exists(ws):
        os.makedirs(ws)
        for d in CRATES.values():
            shutil.copytree(os.path.join(repo, d), os.path.join(ws, d), symlinks=True)
        shutil.copy(os.path.join(repo, 'Cargo.lock'), os.path.join(ws, 'Cargo.lock'))
        with open(os.path.join(ws, 'Cargo.toml'), 'w') as f:
            f.write('[workspace]\nresolver = "2"\nmembers = [%s]\n[workspace.package]\nrust-version = "1.64.0"\n' % ', '.join(f'"{d}"' for d in CRATES.values()))
    else:
        # refresh sources from the working tree
        for d in CRATES.values():
            src = os.path.join(repo, d, 'src')
            dst = os.path.join(ws, d, 'src')
            shutil.rmtree(dst, ignore_errors=True)
            shutil.copytree(src, dst)
    cdir = os.path.join(ws, CRATES[crate_key])
    out = os.path.join(scratch, f'{crate_key}.mir')
    env = dict(os.environ, CARGO_NET_OFFLINE='true', CARGO_TERM_COLOR='never')
    # make sure cargo re-runs rustc (an up-to-date crate prints nothing)
    for root, _d, files in os.walk(os.path.join(cdir, 'src')):
        for fn in files:
            if fn in ('lib.rs',):
                os.utime(os.path.join(root, fn))
    t0 = time.time()
    feats = ['--no-default-features'] if crate_key == 'client' else []
    cmd = ['cargo', '+nightly', 'rustc', '--offline', '--lib'] + feats + ['--target-dir', os.path.join(scratch, 'mir-target'), '--',
                                                                               '-Zunpretty=mir', '-C', 'debug-assertions=off', '-C', 'overflow-checks=on']
    p = subprocess.run(cmd, cwd=cdir, env=env, stdout=subprocess.PIPE, stderr=subprocess.PIPE, text=True)
    if p.returncode != 0 or 'fn ' not in p.stdout:
        raise RuntimeError(f'MIR dump failed for {crate_key}:\n{p.stderr[-3000:]}')
    open(out, 'w').write(p.stdout)
    return p.stdout, time.time() - t0, ws


def strip_comments(src):
    src = re.sub(r'/\*.*?\*/', '', src, flags=re.S)
    src = re.sub(r'//[^\n]*', '', src)
    return src


def parse_enums(src_dir):
    enums = {}
    for root, _d, files in os.walk(src_dir):
        for fn in files:
            if not fn.endswith('.rs'):
                continue
            src = strip_comments(open(os.path.join(root, fn)).read())
            for m in re.finditer(r'\benum\s+(\w+)\s*', src):
                name = m.group(1)
                k = m.end()
                if k < len(src) and src[k] == '<':
                    depth = 0
                    while k < len(src):
                        if src[k] == '<':
                            depth += 1
                        elif src[k] == '>':
                            depth -= 1
                            if depth == 0:
                                k += 1
                                break
                        k += 1
                mm2 = re.compile(r'\s*(?:where[^{]*)?\{').match(src, k)
                if not mm2:
                    continue
                k = mm2.end() - 1
                end = mir.find_matching(src, k)
                body = src[k + 1:end]
                variants = []
                for item in mir.split_top(body):
                    item = re.sub(r'#\[[^\]]*\]', '', item).strip()
                    mm = re.match(r'^(\w+)', item)
                    if mm:
                        variants.append(mm.group(1))
                if name not in enums:
                    enums[name] = variants
    return enums


def parse_struct_fields(src_dir):
    """struct name -> [field names] (declaration order = MIR field index)"""
    structs = {}
    for root, _d, files in os.walk(src_dir):
        for fn in files:
            if not fn.endswith('.rs'):
                continue
            src = strip_comments(open(os.path.join(root, fn)).read())
            for m in re.finditer(r'\bstruct\s+(\w+)\s*', src):
                name = m.group(1)
                k = m.end()
                if k < len(src) and src[k] == '<':
                    depth = 0
                    while k < len(src):
                        if src[k] == '<':
                            depth += 1
                        elif src[k] == '>':
                            depth -= 1
                            if depth == 0:
                                k += 1
                                break
                        k += 1
                mm2 = re.compile(r'\s*(?:where[^{(;]*)?(\{|\()').match(src, k)
                if not mm2:
                    continue
                k = mm2.end() - 1
                end = mir.find_matching(src, k)
                body = src[k + 1:end]
                fields = []
                for item in mir.split_top(body):
                    item = re.sub(r'#\[[^\]]*\]', '', item).strip()
                    if not item:
                        continue
                    if src[k] == '(':
                        fields.append(str(len(fields)))
                    else:
                        mm = re.match(r'^(?:pub(?:\([^)]*\))?\s+)?(?:r#)?(\w+)\s*:', item)
                        if mm:
                            fields.append(mm.group(1))
                structs.setdefault(name, fields)
    return structs


def impl_traits(funcs, ws_root):
    """'<impl at file:l:c: l:c>' -> trait name or None"""
    out = {}
    cache = {}
    for name in funcs:
        for m in re.finditer(r'<impl at ([^>]*?):(\d+):(\d+): (\d+):(\d+)>', name):
            key = f'{m.group(1)}:{m.group(2)}:{m.group(3)}: {m.group(4)}:{m.group(5)}'
            if key in out:
                continue
            path = os.path.join(ws_root, m.group(1))
            if path not in cache:
                try:
                    cache[path] = open(path).read().split('\n')
                except OSError:
                    cache[path] = None
            lines = cache[path]
            if lines is None:
                out[key] = None
                continue
            l1, c1, l2, c2 = int(m.group(2)), int(m.group(3)), int(m.group(4)), int(m.group(5))
            if l1 == l2:
                text = lines[l1 - 1][c1 - 1:c2 - 1]
            else:
                text = lines[l1 - 1][c1 - 1:] + ' ' + ' '.join(lines[l1:l2 - 1]) + ' ' + lines[l2 - 1][:c2 - 1]
            text = text.strip()
            if text.startswith('impl'):
                mm = re.match(r'^impl(?:<.*?>)?\s+(.*?)\s+for\s+', text)
                out[key] = re.sub(r'<.*$', '', mm.group(1)).split('::')[-1] if mm else None
            else:
                out[key] = text.split('::')[-1]   # derive(Trait)
    return out


class Loaded:
    pass


def load(repo, scratch, crate_key, **vm_args):
    text, secs, ws = dump_mir(repo, scratch, crate_key)
    funcs = mir.parse_file(text)
    enums = dict(BUILTIN_ENUMS)
    for ck, d in CRATES.items():
        for k, v in parse_enums(os.path.join(repo, d, 'src')).items():
            enums.setdefault(k, v)
    # enums of graphql-parser (the version pinned in Cargo.lock), read from the registry sources
    try:
        lock = open(os.path.join(repo, 'Cargo.lock')).read()
        mm = re.search(r'name = "graphql-parser"\nversion = "([^"]+)"', lock)
        import glob
        for d in glob.glob(os.path.expanduser(f'~/.cargo/registry/src/*/graphql-parser-{mm.group(1)}/src')):
            for k, v in parse_enums(d).items():
                enums.setdefault(k, v)
            for sub in ('query', 'schema'):
                for k, v in parse_enums(os.path.join(d, sub)).items():
                    enums[f'{sub}::{k}'] = v
    except Exception:
        pass
    machine = vmmod.VM(funcs, enums, **vm_args)
    machine.impl_traits = impl_traits(funcs, ws)
    L = Loaded()
    L.vm = machine
    L.funcs = funcs
    L.text = text
    L.dump_seconds = secs
    L.structs = {}
    for ck, d in CRATES.items():
        for k, v in parse_struct_fields(os.path.join(repo, d, 'src')).items():
            L.structs.setdefault(k, v)
    L.enums = enums
    try:
        import glob
        lock = open(os.path.join(repo, 'Cargo.lock')).read()
        mm = re.search(r'name = "graphql-parser"\nversion = "([^"]+)"', lock)
        for d in glob.glob(os.path.expanduser(f'~/.cargo/registry/src/*/graphql-parser-{mm.group(1)}/src')):
            for k, v in parse_struct_fields(d).items():
                L.structs.setdefault(k, v)
            for sub in ('query', 'schema'):
                for k, v in parse_struct_fields(os.path.join(d, sub)).items():
                    L.structs[f'{sub}::{k}'] = v
        msyn = re.findall(r'name = "syn"\nversion = "(2\.[^"]+)"', lock)
        for ver in msyn:
            for d in glob.glob(os.path.expanduser(f'~/.cargo/registry/src/*/syn-{ver}/src')):
                for k, v in parse_struct_fields(d).items():
                    L.structs.setdefault(f'syn::{k}', v)
    except Exception:
        pass
    L.mir_sha = hashlib.sha256(text.encode()).hexdigest()[:16]
    return L


def fn_sha(f):
    return hashlib.sha256(f.text.encode()).hexdigest()[:12]


def find_fn(funcs, suffix, contains=None):
    """the unique function whose printed name ends with `suffix`"""
    c = [f for n, f in funcs.items() if (n == suffix or n.endswith('::' + suffix)) and not f.is_const and (contains is None or contains in n)]
    if len(c) != 1:
        raise KeyError(f'{suffix}: {len(c)} candidates {[f.name for f in c][:5]}')
    return c[0]
