"""Parser for rustc's `-Zunpretty=mir` text (nightly pinned by the image).

Produces `Function` objects: locals with types, basic blocks of parsed
statements and one terminator each.  Only the MIR constructs that occur in the
three crates are handled; anything else raises `MirParseError` when *executed*
(parsing keeps the raw text so an unknown construct in an unrelated function
never matters).
"""
import re
from dataclasses import dataclass, field
from typing import List, Optional, Dict, Tuple, Any


class MirParseError(Exception):
    pass


# ---------------------------------------------------------------- helpers

def split_top(s, sep=','):
    """split at top-level separators; aware of () [] {} <> and string / char literals"""
    out, depth, cur, i, n = [], 0, [], 0, len(s)
    while i < n:
        c = s[i]
        if c == '"':
            j = i + 1
            while j < n and s[j] != '"':
                j += 2 if s[j] == '\\' else 1
            cur.append(s[i:j + 1])
            i = j + 1
            continue
        if c == "'" and i + 2 < n and (s[i + 2] == "'" or (s[i + 1] == '\\' and "'" in s[i + 2:i + 8])):
            j = s.index("'", i + 2 if s[i + 1] != '\\' else i + 3)
            cur.append(s[i:j + 1])
            i = j + 1
            continue
        if c in '([{':
            depth += 1
        elif c in ')]}':
            depth -= 1
        elif c == '<' and i + 1 < n and s[i + 1] != '=' and (i == 0 or s[i - 1] != ' ' or True):
            # angle brackets only matter for commas inside generics; treat '<' as opener when
            # it is followed by an identifier-ish char and not part of an operator
            if i + 1 < n and (s[i + 1].isalnum() or s[i + 1] in "&'_([{<*:!"):
                depth += 1
        elif c == '>' and i > 0 and s[i - 1] not in '-=':
            if depth > 0:
                depth -= 1
        if c == sep and depth == 0:
            out.append(''.join(cur).strip())
            cur = []
        else:
            cur.append(c)
        i += 1
    last = ''.join(cur).strip()
    if last or out:
        out.append(last)
    return out


def find_matching(s, start):
    """index of the bracket matching s[start] (one of ([{ ), string aware"""
    pairs = {'(': ')', '[': ']', '{': '}'}
    depth, i, n = 0, start, len(s)
    while i < n:
        c = s[i]
        if c == '"':
            j = i + 1
            while j < n and s[j] != '"':
                j += 2 if s[j] == '\\' else 1
            i = j + 1
            continue
        if c in '([{':
            depth += 1
        elif c in ')]}':
            depth -= 1
            if depth == 0:
                return i
        i += 1
    raise MirParseError(f'unbalanced: {s[start:start+60]}')


# ---------------------------------------------------------------- places

@dataclass(frozen=True)
class Place:
    local: int
    proj: tuple = ()   # steps: ('deref',) | ('field', i) | ('downcast', name) | ('index', local) | ('constindex', i, from_end) | ('subslice', a, b, from_end)

    def __str__(self):
        return f'_{self.local}{list(self.proj) if self.proj else ""}'


def parse_place(s):
    s = s.strip()
    p, rest = _place(s, 0)
    if rest != len(s):
        raise MirParseError(f'trailing in place: {s!r} at {rest}')
    return p


def _place(s, i):
    """returns (Place, next index)"""
    n = len(s)
    if s[i] == '_':
        m = re.compile(r'_(\d+)').match(s, i)
        base = Place(int(m.group(1)))
        i = m.end()
    elif s[i] == '(':
        if s[i + 1] == '*':
            inner, j = _place(s, i + 2)
            assert s[j] == ')', s
            base = Place(inner.local, inner.proj + (('deref',),))
            i = j + 1
        else:
            inner, j = _place(s, i + 1)
            if s.startswith(' as ', j):
                k = s.index(')', j)
                base = Place(inner.local, inner.proj + (('downcast', s[j + 4:k]),))
                i = k + 1
            elif s[j] == '.':
                m = re.compile(r'\.(\d+): ').match(s, j)
                if not m:
                    raise MirParseError(f'field proj: {s[j:j+30]}')
                # skip the type up to the matching ')'
                k = _close_of(s, i)
                base = Place(inner.local, inner.proj + (('field', int(m.group(1))),))
                i = k + 1
            elif s[j] == ')':
                base = inner
                i = j + 1
            else:
                raise MirParseError(f'place: {s[i:i+40]}')
    else:
        raise MirParseError(f'place start: {s[i:i+40]!r}')
    # postfix index projections
    while i < n and s[i] == '[':
        k = s.index(']', i)
        body = s[i + 1:k]
        m = re.fullmatch(r'_(\d+)', body)
        if m:
            base = Place(base.local, base.proj + (('index', int(m.group(1))),))
        else:
            m = re.fullmatch(r'(-?\d+) of (\d+)', body)
            if m:
                base = Place(base.local, base.proj + (('constindex', abs(int(m.group(1))), body.startswith('-')),))
            else:
                m = re.fullmatch(r'(\d+):(-?\d*)', body)
                if not m:
                    raise MirParseError(f'index proj {body}')
                base = Place(base.local, base.proj + (('subslice', int(m.group(1)), m.group(2)),))
        i = k + 1
    return base, i


def _close_of(s, start):
    depth, i, n = 0, start, len(s)
    while i < n:
        c = s[i]
        if c in '([':
            depth += 1
        elif c in ')]':
            depth -= 1
            if depth == 0:
                return i
        i += 1
    raise MirParseError('unbalanced place')


# ---------------------------------------------------------------- operands / rvalues

@dataclass(frozen=True)
class Operand:
    kind: str           # 'copy' | 'move' | 'const'
    place: Optional[Place] = None
    const: Optional[str] = None


def parse_operand(s):
    s = s.strip()
    if s.startswith('no_retag '):
        s = s[9:]
    if s.startswith('copy '):
        return Operand('copy', parse_place(s[5:]))
    if s.startswith('move '):
        return Operand('move', parse_place(s[5:]))
    if s.startswith('const '):
        return Operand('const', const=s[6:].strip())
    if s.startswith('deref_copy '):
        return Operand('copy', parse_place(s[11:]))
    if re.match(r'^[<\w]', s) and '(' not in s.split('::')[-1]:
        # bare function item used as a value
        return Operand('const', const=s)
    raise MirParseError(f'operand: {s!r}')


BINOPS = {'Eq', 'Ne', 'Lt', 'Le', 'Gt', 'Ge', 'Add', 'Sub', 'Mul', 'Div', 'Rem', 'BitAnd', 'BitOr', 'BitXor', 'Shl', 'Shr',
          'AddWithOverflow', 'SubWithOverflow', 'MulWithOverflow', 'AddUnchecked', 'SubUnchecked', 'MulUnchecked', 'Offset', 'Cmp',
          'ShlUnchecked', 'ShrUnchecked'}
UNOPS = {'Not', 'Neg', 'PtrMetadata'}


@dataclass
class Rvalue:
    kind: str
    a: Any = None
    b: Any = None
    c: Any = None
    text: str = ''


def parse_rvalue(s):
    s = s.strip()
    t = s
    if t.startswith('no_retag '):
        t = t[9:]
    if t.startswith(('copy ', 'move ', 'const ', 'deref_copy ')):
        # may be a cast: "<operand> as TYPE (Kind)"
        m = re.match(r'^(.*) as (.*) \((\w+)(?:\(.*\))?\)$', t)
        if m and not t.startswith('const "'):
            try:
                return Rvalue('cast', parse_operand(m.group(1)), m.group(2), m.group(3), text=s)
            except MirParseError:
                pass
        return Rvalue('use', parse_operand(t), text=s)
    if t.startswith('&raw const ') or t.startswith('&raw mut '):
        rest = t.split(' ', 2)[2]
        if rest.startswith('(fake) '):
            rest = rest[7:]
        return Rvalue('ref', parse_place(rest), text=s)
    if t.startswith('&mut '):
        return Rvalue('ref', parse_place(t[5:]), True, text=s)
    if t.startswith('&fake shallow '):
        return Rvalue('ref', parse_place(t[14:]), text=s)
    if t.startswith('&'):
        return Rvalue('ref', parse_place(t[1:]), False, text=s)
    if t.startswith('discriminant('):
        return Rvalue('discr', parse_place(t[13:-1]), text=s)
    if t.startswith('Len('):
        return Rvalue('len', parse_place(t[4:-1]), text=s)
    m = re.match(r'^(\w+)\((.*)\)$', t)
    if m and m.group(1) in BINOPS:
        a, b = split_top(m.group(2))
        return Rvalue('binop', m.group(1), parse_operand(a), parse_operand(b), text=s)
    if m and m.group(1) in UNOPS:
        return Rvalue('unop', m.group(1), parse_operand(m.group(2)), text=s)
    if t.startswith('(') and t.endswith(')'):
        inner = t[1:-1].strip()
        items = [x for x in split_top(inner) if x != ''] if inner else []
        return Rvalue('tuple', [parse_operand(x) for x in items], text=s)
    if t.startswith('[') and t.endswith(']'):
        inner = t[1:-1]
        if '; ' in inner and not inner.startswith(('copy', 'move')) or re.search(r'; \d+$', inner):
            mm = re.match(r'^(.*); (\d+)$', inner)
            if mm:
                return Rvalue('repeat', parse_operand(mm.group(1)), int(mm.group(2)), text=s)
        items = split_top(inner) if inner.strip() else []
        return Rvalue('array', [parse_operand(x) for x in items], text=s)
    if t.startswith('{closure@') or t.startswith('{coroutine@'):
        k = find_matching(t, 0)
        rest = t[k + 1:].strip()
        fields = []
        if rest.startswith('{'):
            body = rest[1:find_matching(rest, 0)].strip()
            for item in split_top(body):
                if item:
                    fields.append(parse_operand(item.split(': ', 1)[1]))
        return Rvalue('closure', t[:k + 1], fields, text=s)
    # ADT aggregates:  Path::Variant(ops) | Path { f: op, .. } | Path::Unit | Path
    m = re.match(r'^(.*?)\s*\{(.*)\}$', t)
    if m and ': ' in m.group(2) and not m.group(1).endswith('('):
        fields = [parse_operand(item.split(': ', 1)[1]) for item in split_top(m.group(2).strip()) if item]
        return Rvalue('adt', m.group(1).strip(), fields, 'struct', text=s)
    if t.endswith(')'):
        # find the last top-level '(' group
        k = _last_group(t)
        path = t[:k]
        inner = t[k + 1:-1]
        items = split_top(inner) if inner.strip() else []
        return Rvalue('adt', path, [parse_operand(x) for x in items], 'tuple', text=s)
    if re.match(r'^[\w:<>\' ,&\[\]()*;{}@/.#-]+$', t):
        return Rvalue('adt', t, [], 'unit', text=s)
    raise MirParseError(f'rvalue: {s!r}')


def _last_group(t):
    """index of the '(' that opens the final top-level parenthesised group (t ends with ')')"""
    depth = 0
    i = len(t) - 1
    while i >= 0:
        c = t[i]
        if c == ')':
            depth += 1
        elif c == '(':
            depth -= 1
            if depth == 0:
                return i
        i -= 1
    raise MirParseError(f'group: {t}')


# ---------------------------------------------------------------- statements / terminators

@dataclass
class Stmt:
    kind: str            # assign | setdiscr | nop
    place: Optional[Place] = None
    rvalue: Optional[Rvalue] = None
    value: Any = None
    text: str = ''


@dataclass
class Term:
    kind: str            # goto switch return unreachable resume drop call assert
    text: str = ''
    target: Optional[int] = None
    operand: Optional[Operand] = None
    targets: list = field(default_factory=list)     # switch: [(value, bb)], otherwise
    otherwise: Optional[int] = None
    place: Optional[Place] = None                   # call dest / drop place
    callee: str = ''
    args: list = field(default_factory=list)
    expected: bool = True                           # assert
    msg: str = ''


def parse_stmt(line):
    s = line.strip().rstrip(';')
    if s.startswith(('StorageLive', 'StorageDead', 'nop', 'FakeRead', 'Retag', 'PlaceMention', 'AscribeUserType', 'Coverage', 'ConstEvalCounter', 'BackwardIncompatibleDropHint')):
        return Stmt('nop', text=s)
    if s.startswith('Deinit('):
        return Stmt('nop', text=s)
    if s.startswith('assume('):
        return Stmt('nop', text=s)
    m = re.match(r'^discriminant\((.*)\) = (\d+)$', s)
    if m:
        return Stmt('setdiscr', parse_place(m.group(1)), value=int(m.group(2)), text=s)
    # assignment: split at the first top-level " = "
    k = _assign_split(s)
    if k < 0:
        raise MirParseError(f'stmt: {s!r}')
    return Stmt('assign', parse_place(s[:k]), parse_rvalue(s[k + 3:]), text=s)


def _assign_split(s):
    depth = 0
    for i, c in enumerate(s):
        if c in '([':
            depth += 1
        elif c in ')]':
            depth -= 1
        elif c == ' ' and depth == 0 and s.startswith(' = ', i):
            return i
    return -1


def _bb(s):
    return int(s.strip()[2:])


def parse_term(line):
    s = line.strip().rstrip(';')
    if s.startswith('goto -> '):
        return Term('goto', s, target=_bb(s[8:]))
    if s == 'return':
        return Term('return', s)
    if s == 'unreachable':
        return Term('unreachable', s)
    if s.startswith('resume') or s.startswith('terminate'):
        return Term('resume', s)
    if s.startswith('falseEdge -> [real: ') or s.startswith('falseUnwind -> [real: '):
        return Term('goto', s, target=_bb(s.split('[real: ')[1].split(',')[0]))
    if s.startswith('switchInt('):
        k = find_matching(s, 9)
        t = Term('switch', s, operand=parse_operand(s[10:k]))
        body = s[s.index('[', k) + 1:s.rindex(']')]
        for item in body.split(', '):
            v, bb = item.split(': ')
            if v == 'otherwise':
                t.otherwise = _bb(bb)
            else:
                t.targets.append((int(v), _bb(bb)))
        return t
    if s.startswith('drop('):
        k = find_matching(s, 4)
        t = Term('drop', s, place=parse_place(s[5:k]))
        m = re.search(r'return: (bb\d+)', s)
        t.target = _bb(m.group(1)) if m else None
        return t
    if s.startswith('assert('):
        k = find_matching(s, 6)
        parts = split_top(s[7:k])
        cond = parts[0]
        expected = True
        if cond.startswith('!'):
            expected = False
            cond = cond[1:]
        t = Term('assert', s, operand=parse_operand(cond), expected=expected, msg=parts[1] if len(parts) > 1 else '')
        m = re.search(r'success: (bb\d+)', s)
        t.target = _bb(m.group(1))
        return t
    # call
    k = _assign_split(s)
    if k < 0:
        raise MirParseError(f'terminator: {s!r}')
    dest = parse_place(s[:k])
    rhs = s[k + 3:]
    arrow = rhs.rfind(' -> ')
    if arrow < 0:
        raise MirParseError(f'call without arrow: {s!r}')
    call, tail = rhs[:arrow], rhs[arrow + 4:]
    t = Term('call', s, place=dest)
    m = re.search(r'return: (bb\d+)', tail)
    if m:
        t.target = _bb(m.group(1))
    elif re.match(r'^bb\d+$', tail.strip()):
        # "-> bbN" for a diverging call is the unwind target
        t.target = None
    g = _last_group(call)
    t.callee = call[:g].strip()
    inner = call[g + 1:-1]
    t.args = [parse_operand(x) for x in split_top(inner)] if inner.strip() else []
    return t


# ---------------------------------------------------------------- functions

@dataclass
class Block:
    stmts: List[Stmt]
    term: Term
    cleanup: bool = False


@dataclass
class Function:
    name: str
    header: str
    params: List[Tuple[int, str]]
    ret: str
    locals: Dict[int, str]
    blocks: Dict[int, Block]
    text: str
    is_const: bool = False
    _raw: Dict[int, List[str]] = field(default_factory=dict)

    def block(self, n):
        b = self.blocks.get(n)
        if b is None:
            raw = self._raw[n]
            lines = [ln for ln in raw if ln.strip()]
            stmts = [parse_stmt(ln) for ln in lines[:-1]]
            b = Block(stmts, parse_term(lines[-1]))
            self.blocks[n] = b
        return b


HEADER_RE = re.compile(r'^(?:fn|const|static(?: mut)?) (.*)$')


def parse_file(text):
    """returns dict name -> Function (names as printed in the header)"""
    funcs = {}
    lines = text.split('\n')
    i, n = 0, len(lines)
    while i < n:
        ln = lines[i]
        if (ln.startswith('fn ') or ln.startswith('const ') or ln.startswith('static ')) and ln.rstrip().endswith('{'):
            j = i + 1
            while j < n and lines[j] != '}':
                j += 1
            body = lines[i:j + 1]
            f = _parse_function(body)
            if f:
                funcs.setdefault(f.name, f)
            i = j + 1
        elif ln.startswith('const ') and ln.rstrip().endswith(';') and ' = const ' in ln:
            # one-line literal constant:  const NAME: TYPE = const VALUE;
            head, val = ln.rstrip()[:-1].split(' = const ', 1)
            body = [head + ' = {', '    let mut _0: x;', '', '    bb0: {', f'        _0 = const {val};', '        return;', '    }', '}']
            f = _parse_function(body)
            if f:
                funcs.setdefault(f.name, f)
            i += 1
        else:
            i += 1
    return funcs


def _parse_function(body):
    header = body[0]
    is_const = not header.startswith('fn ')
    if is_const:
        m = re.match(r'^(?:const|static(?: mut)?) (.*) = \{$', header)
        if not m:
            return None
        body0 = m.group(1)
        # split "name: type" at the first ': ' outside <...> (impl-at spans contain ': ')
        depth, k = 0, -1
        for i, ch in enumerate(body0):
            if ch == '<':
                depth += 1
            elif ch == '>' and body0[i - 1] != '-':
                depth -= 1
            elif ch == ':' and depth == 0 and body0[i:i + 2] == ': ':
                k = i
                break
        if k < 0:
            return None
        name, params, ret = body0[:k], [], body0[k + 2:]
    else:
        h = header[3:]
        # name up to the parameter list: the '(' that follows the name (names may contain <impl at ...> and {closure#0})
        k = _param_open(h)
        name = h[:k]
        close = find_matching(h, k)
        ptxt = h[k + 1:close]
        params = []
        for p in split_top(ptxt):
            if not p:
                continue
            mm = re.match(r'^_(\d+): (.*)$', p)
            params.append((int(mm.group(1)), mm.group(2)))
        rm = re.match(r'^\s*-> (.*) \{$', h[close + 1:])
        ret = rm.group(1) if rm else '()'
    locals_ = {}
    raw = {}
    cur = None
    for ln in body[1:]:
        m = re.match(r'^\s+let (?:mut )?_(\d+): (.*);$', ln)
        if m and cur is None:
            locals_[int(m.group(1))] = m.group(2)
            continue
        m = re.match(r'^    bb(\d+)( \(cleanup\))?: \{$', ln)
        if m:
            cur = int(m.group(1))
            raw[cur] = []
            continue
        if cur is not None:
            if ln == '    }':
                cur = None
            else:
                raw[cur].append(ln)
    for idx, ty in params:
        locals_[idx] = ty
    locals_.setdefault(0, ret)
    return Function(name, header, params, ret, locals_, {}, '\n'.join(body), is_const, raw)


def _param_open(h):
    """index of the '(' that starts the parameter list in a fn header (after 'fn ')"""
    depth_angle = 0
    depth_brace = 0
    i, n = 0, len(h)
    while i < n:
        c = h[i]
        if c == '<':
            depth_angle += 1
        elif c == '>' and (i == 0 or h[i - 1] != '-'):
            depth_angle -= 1
        elif c == '{':
            depth_brace += 1
        elif c == '}':
            depth_brace -= 1
        elif c == '(' and depth_angle == 0 and depth_brace == 0:
            return i
        i += 1
    raise MirParseError(f'header: {h}')
