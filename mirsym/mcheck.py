"""Common driver for engine-M checks: explore a kernel, discharge obligations, collect evidence."""
import os
import sys
import time
import z3

HERE = os.path.dirname(os.path.abspath(__file__))
sys.path.insert(0, HERE)
sys.path.insert(0, os.path.join(HERE, '..', 'lib'))

import loader  # noqa: E402
import vm as V  # noqa: E402
from build import Builder  # noqa: E402


class MRun:
    def __init__(self, repo, scratch, crate_key, **vm_args):
        self.L = loader.load(repo, scratch, crate_key, **vm_args)
        self.vm = self.L.vm
        self.crate_key = crate_key
        self.paths = 0
        self.obligations = 0
        self.discharged = 0
        self.sat = []            # (kernel, description, model-derived input)
        self.inconclusive = []
        self.samples = []
        self.kernels = {}
        self.panics = 0
        self.t0 = time.time()
        self.cross = []          # SMT-LIB texts for the cvc5 cross-check

    def fn(self, suffix, contains=None):
        return loader.find_fn(self.L.funcs, suffix, contains)

    def explore(self, kernel, setup, limit_paths=None):
        """setup(st, B) must push the initial call; returns list of outcomes ([] when inconclusive)"""
        st = V.State()
        B = Builder(self.L, st)
        # a fresh solver per exploration: one z3 solver object that has seen the string constants of several kernels gets
        # slower by orders of magnitude (measured: 7 s -> 700 s for the same kernel)
        self.vm.solver = z3.Solver()
        self.vm.solver.set('timeout', 30000)
        try:
            ctx = setup(st, B)
            outs = self.vm.run(st, limit_paths=limit_paths)
        except (V.Unsupported, V.PathLimit, KeyError) as e:
            self.inconclusive.append(f'{kernel}: {type(e).__name__}: {e}')
            return [], None
        k = self.kernels.setdefault(kernel, dict(paths=0, scenarios=0))
        k['paths'] += len(outs)
        k['scenarios'] += 1
        self.paths += len(outs)
        for o in outs:
            if o.kind in ('limit',) and not getattr(self, 'limit_is_finding', False):
                self.inconclusive.append(f'{kernel}: {o.msg}')
            if o.kind == 'panic':
                self.panics += 1
        return outs, ctx

    def prove(self, kernel, out, claim, describe, witness=None):
        """obligation: path condition of `out` implies `claim` (a z3 Bool).
        Returns None when discharged, else a model."""
        self.obligations += 1
        neg = z3.simplify(z3.Not(claim))
        if z3.is_false(neg):
            self.discharged += 1
            return None
        t0 = time.time()
        r = self.vm.solver.check(*(out.state.pc + [neg]))
        self.vm.solver_time += time.time() - t0
        self.vm.queries += 1
        if r == z3.unsat:
            self.discharged += 1
            if len(self.cross) < 40:
                s = z3.Solver()
                s.add(*out.state.pc)
                s.add(neg)
                self.cross.append(s.to_smt2())
            return None
        if r == z3.unknown:
            # retry once in a fresh solver with a generous limit (the shared one has a short per-query time-out)
            s2 = z3.Solver()
            s2.set('timeout', 180000)
            s2.add(*out.state.pc)
            s2.add(neg)
            r = s2.check()
            if r == z3.unsat:
                self.discharged += 1
                return None
            if r == z3.unknown:
                self.inconclusive.append(f'{kernel}: solver unknown on {describe}')
                return None
            return s2.model()
        m = self.vm.solver.model()
        return m

    def run_parallel(self, jobs, workers=None):
        """jobs: [(kernel function taking this MRun first, args tuple)].  Each job runs in a forked child on a copy of
        this MRun (MIR already loaded); candidates and statistics are merged back.  Returns the concatenated candidates."""
        import multiprocessing as mp
        import pickle
        ctx = mp.get_context('fork')

        def child(conn, fn, args):
            try:
                # statistics are reported as deltas: start every counter from zero in the child
                self.paths = self.obligations = self.discharged = self.panics = 0
                self.inconclusive, self.samples, self.kernels, self.cross = [], [], {}, []
                self.vm.queries, self.vm.solver_time = 0, 0.0
                cands = fn(self, *args)
                stats = dict(paths=self.paths, obligations=self.obligations, discharged=self.discharged, inconclusive=self.inconclusive,
                             samples=self.samples, kernels=self.kernels, panics=self.panics, cross=self.cross[:12],
                             used_functions=set(self.vm.used_functions), used_summaries=set(self.vm.used_summaries),
                             queries=self.vm.queries, solver_time=self.vm.solver_time)
                conn.send_bytes(pickle.dumps((cands, stats, None)))
            except BaseException as e:  # noqa
                conn.send_bytes(pickle.dumps(([], None, f'{type(e).__name__}: {e}')))
            finally:
                conn.close()
                os._exit(0)

        procs = []
        sem = workers or min(len(jobs), 8)
        pending = list(enumerate(jobs))
        running = []
        results = {}
        while pending or running:
            while pending and len(running) < sem:
                i, (fn, args) = pending.pop(0)
                a, b = ctx.Pipe(duplex=False)
                p_ = ctx.Process(target=child, args=(b, fn, args))
                p_.start()
                b.close()
                running.append((i, p_, a, fn))
            i, p_, a, fn = running.pop(0)
            try:
                results[i] = pickle.loads(a.recv_bytes())
            except EOFError:
                results[i] = ([], None, f'{fn.__name__}: worker died')
            p_.join()
        out = []
        for i in sorted(results):
            cands, stats, err = results[i]
            if err:
                self.inconclusive.append(f'{jobs[i][0].__name__}: {err}')
                continue
            out += cands
            self.paths += stats['paths']
            self.obligations += stats['obligations']
            self.discharged += stats['discharged']
            self.inconclusive += stats['inconclusive']
            self.samples += stats['samples']
            for k, v in stats['kernels'].items():
                d = self.kernels.setdefault(k, dict(paths=0, scenarios=0))
                d['paths'] += v['paths']
                d['scenarios'] += v['scenarios']
            self.panics += stats['panics']
            self.cross += stats['cross']
            self.vm.used_functions |= stats['used_functions']
            self.vm.used_summaries |= stats['used_summaries']
            self.vm.queries += stats['queries']
            self.vm.solver_time += stats['solver_time']
        return out

    def sample(self, item):
        if len(self.samples) < 12:
            self.samples.append(item)

    def cross_check(self, limit=12, timeout_s=20):
        """re-run some discharged obligations through cvc5 and /usr/bin/z3 (SMT-LIB export)"""
        import subprocess
        import tempfile
        agree, total, skipped = 0, 0, 0
        for text in self.cross[:limit]:
            with tempfile.NamedTemporaryFile('w', suffix='.smt2', delete=False) as f:
                f.write('(set-logic ALL)\n' + text.replace('(check-sat)', '') + '\n(check-sat)\n')
                path = f.name
            try:
                for cmd in (['cvc5', '--lang', 'smt2', f'--tlimit={timeout_s * 1000}', '--strings-exp', path], ['/usr/bin/z3', f'-T:{timeout_s}', path]):
                    try:
                        p = subprocess.run(cmd, stdout=subprocess.PIPE, stderr=subprocess.STDOUT, text=True, timeout=timeout_s + 5)
                    except subprocess.TimeoutExpired:
                        skipped += 1
                        continue
                    out = p.stdout.strip()
                    total += 1
                    if '(error' in out or out.split('\n')[-1] not in ('unsat', 'sat', 'unknown', 'timeout'):
                        skipped += 1
                        total -= 1
                    elif out.split('\n')[-1] == 'unsat':
                        agree += 1
                    elif out.split('\n')[-1] == 'sat':
                        self.inconclusive.append('cross-check: a second solver answers sat where z3 (python) answered unsat')
                    else:
                        skipped += 1
                        total -= 1
            finally:
                os.unlink(path)
        return dict(rechecked=total, agree=agree, skipped=skipped)

    def evidence(self):
        fns = {}
        for name in sorted(self.vm.used_functions):
            f = self.L.funcs.get(name)
            if f:
                fns[name] = loader.fn_sha(f)
        return dict(
            mir_crate=loader.CRATES[self.crate_key], mir_sha=self.L.mir_sha, mir_dump_s=round(self.L.dump_seconds, 1),
            functions_encoded=fns, summaries_used=sorted(self.vm.used_summaries),
            kernels=self.kernels, paths=self.paths, obligations=self.obligations, discharged=self.discharged,
            solver_queries=self.vm.queries, solver_s=round(self.vm.solver_time, 2), panics_paths=self.panics)
