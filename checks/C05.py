"""C05 - request body carries the verbatim document and the right operation name (engine M + native).

Engine M:
  lib::generate_module_token_stream_inner (query::resolve and GeneratedModule::to_token_stream stubbed) for every
      (mode, explicit operation name present / absent, normalization, operation names as unconstrained strings):
      derive mode fails unless an operation matches; a match selects exactly that operation; CLI without a name
      yields one module per operation in document order.
  GeneratedModule::to_token_stream (build_impls stubbed): OPERATION_NAME is the unmodified operation name, QUERY is
      the query text, build_query wires exactly these constants.
Native (concrete, every run): a consumer crate built on a document with CR/LF, comments, string escapes and
non-ASCII text: serde_json::to_value(build_query(v)) has exactly the three members and `query` equals the file bytes.
"""
import json
import re
import time

import vp_common as vc
import native
import consumer
import mcheck
import kernels as K

PROP = 'C05'
NAME_RE = re.compile(r'^[_A-Za-z][_0-9A-Za-z]*$')

DOC = '# leading comment éè 中文\r\nquery  First($a: Int = 3, $s: String = "q\\"uote\\n\\u00e9") {\r\n  x(a: $a)   # trailing, commas,,\r\n}\r\n\r\nquery Second { x }\n\tfragment Unused on Query { x }\n'
SCHEMA = 'type Query { x(a: Int, s: String): Int }\n'


def modules_of(text):
    items = native.parse_generated(text)
    return [it.name for it in items if it.kind == 'mod']


SCHEMA_KINDS = ('schema { query: Query mutation: Mut subscription: Sub }\ntype Query { x(a: Int, s: String): Int }\n'
                'type Mut { m(s: String): Int }\ntype Sub { w(a: Int): Int }\n')


def colliding_operations(rt):
    """module consistency, sampled natively: whichever operation a struct name / explicit name selects, OPERATION_NAME and
    Variables of a module must belong to the same operation.  Documents: two operations whose names coincide after
    normalization (`mountain_height`, `MountainHeight`), and operations of different kinds interleaved.
    Returns a description of the first inconsistency or None."""
    docs = [
        (SCHEMA, 'query mountain_height($a: Int) { x(a: $a) }\nquery MountainHeight($s: String) { x(s: $s) }\n',
         {'mountain_height': ['a'], 'MountainHeight': ['s']}, ('MountainHeight', 'mountain_height')),
        (SCHEMA_KINDS, 'query ThingName($id: Int) { x(a: $id) }\nmutation RenameThing($s: String) { m(s: $s) }\nsubscription Watch($w: Int) { w(a: $w) }\n'
                       'query Other($o: String) { x(s: $o) }\n',
         {'ThingName': ['id'], 'RenameThing': ['s'], 'Watch': ['w'], 'Other': ['o']}, ('RenameThing', 'Watch', 'Other', None)),
    ]
    for schema, doc, own, names in docs:
        for mode in ('derive', 'cli'):
            for name in names:
                for nz in ('rust', 'none'):
                    if name is None and mode == 'derive':
                        continue
                    opts = {'mode': mode, 'normalization': nz}
                    if name is not None:
                        opts.update(operation_name=name, struct_ident=name)
                    r = rt.gen(schema, doc, opts)
                    if r['status'] != 'ok':
                        continue
                    for it in native.parse_generated(r['text']):
                        if it.kind != 'mod':
                            continue
                        consts = {x.name: ''.join(x.rhs).strip('"') for x in it.items if x.kind == 'const'}
                        vs = native.find_item(it.items, 'Variables', 'struct')
                        fields = [f[0] for f in vs.fields] if vs else []
                        opn = consts.get('OPERATION_NAME')
                        if opn in own and fields != own[opn]:
                            return (f'{mode} mode, normalization {nz}, requested `{name}`: module `{it.name}` sends operationName {opn!r} but its Variables has the fields {fields} '
                                    f'(expected {own[opn]}) for the document `{doc.strip()}`')
    return None


def module_constants(rt, normalization):
    """generate two operations whose names are not UpperCamelCase and read OPERATION_NAME / QUERY back from the modules"""
    doc = 'query echo_message { x }\nquery mountainHeight { x }\n'
    r = rt.gen(SCHEMA, doc, {'mode': 'cli', 'normalization': normalization})
    if r['status'] != 'ok':
        return f'generation failed: {r["text"][:200]}'
    items = native.parse_generated(r['text'])
    got = {}
    for it in items:
        if it.kind == 'mod':
            consts = {x.name: ''.join(x.rhs) for x in it.items if x.kind == 'const'}
            got[it.name] = consts
    problems = []
    for op in ('echo_message', 'mountainHeight'):
        hit = [m for m, cs in got.items() if cs.get('OPERATION_NAME') == json.dumps(op)]
        if len(hit) != 1:
            problems.append(f'no module has OPERATION_NAME == "{op}" under normalization {normalization}: {[cs.get("OPERATION_NAME") for cs in got.values()]}')
        elif json.loads(got[hit[0]].get('QUERY', '""')) != doc:
            problems.append(f'QUERY of module {hit[0]} is not the document text')
    return '; '.join(problems)


def main():
    t0 = time.time()
    tier = vc.tier()
    out = vc.Outcome(PROP)
    sc = vc.scratch(PROP)
    rt = native.ReplayTool(sc)
    rt.start_build()
    R = mcheck.MRun(vc.REPO, sc, 'codegen', max_depth=60)
    cands = K.k_operation_selection(R, 2)
    if tier == 'thorough':
        cands += K.k_operation_selection(R, 3)
    cands += K.k_generated_module(R)
    cands += K.k_module_root(R)
    replayed = 0
    seen = set()
    for c in cands:
        if c['kernel'] in seen:
            continue
        if c['kernel'] == 'module_root':
            seen.add(c['kernel'])
            clash = colliding_operations(rt)
            replayed += 1
            if clash:
                out.violation('operation-selection:colliding-names', c['what'] + ': ' + clash, dict(kind='collision', model=c))
            else:
                out.inconc(f'module-root counterexample did not reproduce natively: {c}')
        elif c['kernel'] == 'operation_selection':
            ops = c['operations']
            if not all(NAME_RE.match(n or '') for n in ops) or (c['operation_name'] is not None and not NAME_RE.match(c['operation_name'])):
                # the model's strings are not GraphQL names: try a canonical instance of the same shape
                ops = ['alpha_op', 'BetaOp'][:len(ops)] + [f'Op{i}' for i in range(2, len(ops))]
            doc = '\n'.join(f'query {n} {{ x }}' for n in ops) + '\n'
            opts = {'mode': c['mode'].lower(), 'normalization': c['normalization'].lower()}
            if c['operation_name'] is not None:
                opts['operation_name'] = c['operation_name'] if NAME_RE.match(c['operation_name'] or '') else ops[-1]
                opts['struct_ident'] = opts['operation_name']
            r = rt.gen(SCHEMA, doc, opts)
            replayed += 1
            desc = f"mode={opts['mode']} normalization={opts['normalization']} operation_name={opts.get('operation_name')} operations={ops}: {r['status']}"
            if r['status'] == 'ok':
                mods = modules_of(r['text'])
                desc += f' modules={mods}'
                explicit = opts.get('operation_name')
                bad = (opts['mode'] == 'derive' and (explicit is None or len(mods) != 1)) or (explicit is not None and explicit in ops and len(mods) != 1)
            else:
                bad = opts['mode'] == 'cli' or (opts.get('operation_name') in ops)
            if bad:
                seen.add(c['kernel'])
                out.violation('operation-selection', c['what'] + ': ' + desc, dict(kind='solver', model=c, schema=SCHEMA, query=doc, options=opts))
            else:
                # names that coincide only after normalization are the other way such a model can be realised
                clash = colliding_operations(rt)
                replayed += 1
                if clash:
                    out.violation('operation-selection:colliding-names', c['what'] + ': ' + clash, dict(kind='collision', model=c))
                else:
                    out.inconc(f'operation-selection counterexample did not reproduce natively: {desc} (model {c})')
                seen.add(c['kernel'])
        else:
            seen.add(c['kernel'])
            bad = module_constants(rt, c.get('normalization', 'None').lower())
            replayed += 1
            if bad:
                out.violation('module-constants', f"{c['what']}: {bad}", dict(kind='solver', model=c, detail=bad))
            else:
                out.inconc(f'generated-module counterexample did not reproduce natively: {c}')
    # native body check
    C = consumer.Consumer(sc)
    err = C.build(SCHEMA, DOC, 'First', 'first')
    native_ok = None
    if err:
        out.inconc('native body check: consumer crate did not compile: ' + err[-300:].replace('\n', ' | '))
    else:
        res = C.run('variables', [{'a': 1, 's': None}])
        replayed += 1
        if not res or res[0][0] != 'ok':
            out.violation('native:body', f'build_query failed: {res}', dict(kind='native'))
        else:
            body = res[0][1]
            native_ok = sorted(body) == ['operationName', 'query', 'variables'] and body['query'] == DOC and body['operationName'] == 'First' and body['variables'] == {'a': 1, 's': None}
            if not native_ok:
                out.violation('native:body', f'request body is {json.dumps(body)[:400]}; expected members operationName=First, query=<file bytes>, variables', dict(kind='native', body=body, document=DOC))
    for nz in ('none', 'rust'):
        bad = module_constants(rt, nz)
        replayed += 1
        if bad and 'module-constants' not in [v[0] for v in out.violations]:
            out.violation('native:module-constants', bad, dict(kind='native', normalization=nz))
    clash = colliding_operations(rt)
    replayed += 1
    if clash and not any(v[0].startswith('operation-selection') for v in out.violations):
        out.violation('native:module-consistency', clash, dict(kind='collision'))
    # derive mode on a struct name that matches nothing: must fail and name the operations
    r = rt.gen(SCHEMA, DOC, {'mode': 'derive', 'operation_name': 'Third', 'struct_ident': 'Third'})
    replayed += 1
    if r['status'] != 'err' or 'First' not in r['text'] or 'Second' not in r['text']:
        out.violation('native:derive-no-match', f"derive with a struct name that matches no operation: {r['status']} {r['text'][:200]}", dict(kind='native'))
    for w in R.inconclusive:
        out.inconc(w)
    cross = R.cross_check(limit=4 if tier == 'quick' else 20)
    coverage = dict(
        states=R.paths, transitions=R.vm.queries, traces_validated_against_impl=replayed, samples=R.samples[:6] + [dict(native_body_check=native_ok, document_bytes=len(DOC.encode()))],
        obligations=R.obligations, discharged=R.discharged,
        bounds=dict(operations_per_document=2 if tier == 'quick' else 3, names='unconstrained strings, distinct also after normalization'),
        outside_bounds='"for every document text": the verbatim-text clause is checked on one adversarial document natively; query::resolve itself is stubbed in the selection kernel',
        engine=R.evidence(), cross_check=cross, exhaustive=False)
    vc.write_evidence(PROP, 'model_checking', coverage,
                      ['query::resolve returns the operations of the document in order (stub)', 'heck case conversion is an arbitrary function',
                       'a CLI run with an explicit name that matches nothing generates all operations (documented on GraphQLClientCodegenOptions::operation_name)',
                       'library summaries listed under engine.summaries_used'], time.time() - t0, violations=len(out.violations))
    return out.finish()


def replay(path):
    p = json.load(open(path))
    if p.get('kind') == 'collision':
        clash = colliding_operations(native.ReplayTool(vc.scratch(PROP + 'r')))
        print(clash or 'consistent')
        return 1 if clash else 0
    if p.get('kind') == 'native' and 'options' not in p:
        rt = native.ReplayTool(vc.scratch(PROP + 'r'))
        bad = [b for b in (module_constants(rt, 'none'), module_constants(rt, 'rust')) if b]
        print(bad or 'module constants ok')
        return 1 if bad else 0
    if 'options' in p:
        sc = vc.scratch(PROP + 'r')
        r = native.ReplayTool(sc).gen(p['schema'], p['query'], p['options'])
        print(r['status'], modules_of(r['text']) if r['status'] == 'ok' else r['text'][:300])
    return 1
