"""C17 - code generation terminates cleanly on every input, cyclic ones included (engine M).

Every recursive walk of the generator is executed symbolically on *cyclic* symbolic
inputs (fragment-spread graphs, input-type graphs).  Because each walk is a
deterministic function of (node, immutable arena, visited set), re-entering it with
the same arguments and the same reachable state on a feasible path proves
non-termination; the model is then rendered as GraphQL text and run through the real
generator in an isolated process (a crash / time-out confirms it; a Rust panic with a
message does not count, the property allows it).
"""
import json
import time

import vp_common as vc
import native
import mcheck
import kernels as K
import synth

PROP = 'C17'


def shape_key(c):
    """role of a finding, independent of incidental details of the model"""
    if c['kernel'] == 'typename_search':
        return 'typename-search:spread-cycle-on-abstract-type'
    if c['kernel'] in ('used_input_ids', 'input_recursion', 'render_object_literal'):
        return f"{c['kernel']}:input-type-cycle"
    if c['kernel'] == 'type_conditions':
        return 'type-conditions:self-referential-union'
    if c['kernel'] == 'collect_used_types':
        return 'collect-used-types:spread-cycle'
    return c['kernel']


def native_run(rt, c):
    if 'fragments' in c and c['fragments']:
        use = None if c['kernel'] == 'typename_search' else int(c['target'][1:]) if c.get('target', '').startswith('F') else 0
        schema, query = synth.fragment_texts(c['fragments'], use=use)
    elif c['kernel'] == 'type_conditions':
        import C06
        schema, query = C06.render_type_condition(c)
    elif 'graph' in c and c['graph']:
        schema, query = synth.input_graph_texts(c['graph'], c.get('start') or c.get('target'))
        if c['kernel'] == 'render_object_literal':
            # the walk starts from a default value that is an object literal spelling out none of the fields
            query = query.replace('$v: %s)' % (c.get('start') or c.get('target')), '$v: %s = {})' % (c.get('start') or c.get('target')))
    else:
        return None, None, None
    r = rt.gen(schema, query, {}, timeout=40)
    return r, schema, query


def main():
    t0 = time.time()
    tier = vc.tier()
    out = vc.Outcome(PROP)
    sc = vc.scratch(PROP)
    rt = native.ReplayTool(sc)
    rt.start_build()
    R = mcheck.MRun(vc.REPO, sc, 'codegen', max_depth=80, max_paths=60000)
    R.limit_is_finding = True
    cands = []
    fs = [(2, 2)] if tier == 'quick' else [(2, 2), (2, 3)]
    ns = [(2, 2), (3, 2)] if tier == 'quick' else [(2, 2), (3, 2), (2, 3)]      # (3,3) / (4,2) exceed the path budget (measured in C12)
    for F, S in fs:
        cands += K.k_typename_search(R, F, S)
        cands += K.k_collect_used_types(R, F, S)
        cands += K.k_fragment_is_recursive(R, F, S)
    for N, Kf in ns:
        cands += K.k_used_input_ids(R, N, Kf)
        cands += K.k_render_object_literal(R, N, Kf)
    # type-condition validation on a schema whose union lists itself as a member
    cands += [c for c in K.k_type_conditions(R, self_union=True) if c['prop'] == 'C17']
    R.vm.loop_watch = ['contains_type_without_indirection']
    for N, Kf in ns[:2]:
        cands += [c for c in K.k_input_recursion(R, N, Kf, 1) if c['prop'] == 'C17']
    R.vm.loop_watch = []
    cands = [c for c in cands if c['prop'] == 'C17']
    # replay: one per role, smallest model first
    by_role = {}
    for c in cands:
        by_role.setdefault(shape_key(c), []).append(c)
    replayed = 0
    for role, cs in by_role.items():
        confirmed = False
        tried = []
        first_text = None
        for c in cs[:6]:
            r, schema, query = native_run(rt, c)
            replayed += 1
            if r is None:
                continue
            tried.append(r['status'])
            first_text = first_text or (r['status'] + ': ' + r['text'][:160].replace('\n', ' ') + ' on ' + query.replace('\n', ' '))
            if r['status'] in ('crash', 'timeout'):
                out.violation(role, f"the generator {'dies (exit ' + str(r['rc']) + ')' if r['status'] == 'crash' else 'does not finish within 40 s'} on a cyclic input: "
                              + r['text'][-160:].replace('\n', ' '), dict(kind='solver', role=role, kernel=c['kernel'], model=c, schema=schema, query=query, native=r))
                confirmed = True
                break
        if not confirmed:
            out.inconc(f'{role}: the solver proves non-termination of the kernel but {len(tried)} rendered models end natively with {sorted(set(tried))} '
                       f'(the cyclic state may be unreachable through the public API); first: {first_text}')
    for w in R.inconclusive:
        out.inconc(w)
    cross = R.cross_check(limit=4 if tier == 'quick' else 20)
    coverage = dict(
        states=R.paths, transitions=R.vm.queries, traces_validated_against_impl=replayed,
        samples=R.samples[:10], obligations=R.obligations, discharged=R.discharged,
        bounds=dict(fragment_graphs=fs, input_graphs=ns, note='(fragments, selections per fragment) / (input types, fields per type); nested one level for used-type collection'),
        outside_bounds='parser recursion depth (graphql-parser, serde_json), type expressions and selections nested proportionally to input size, larger graphs',
        engine=R.evidence(), cross_check=cross, exhaustive=False)
    vc.write_evidence(PROP, 'model_checking', coverage,
                      ['re-entry with identical arguments and identical reachable state implies non-termination (the walks are deterministic and read-only apart from their visited sets)',
                       'BTreeSet / BTreeMap are modelled as finite association lists', 'library summaries listed under engine.summaries_used'],
                      time.time() - t0, violations=len(out.violations))
    return out.finish()


def replay(path):
    p = json.load(open(path))
    sc = vc.scratch(PROP + 'r')
    rt = native.ReplayTool(sc)
    r = rt.gen(p['schema'], p['query'], {}, timeout=40)
    print(json.dumps(r)[:600])
    return 1 if r['status'] in ('crash', 'timeout') else 0
