"""C09 - Rust-side options never change the JSON wire format (engine K-gen, relational).

The same operation is derived under two option sets in one consumer crate (normalization none / rust;
extra derives + pub(crate) visibility + custom_scalars_module); one symbolic payload (with a symbolic
single-point corruption) is fed to both ResponseData types: CBMC decides that the verdicts
(accepted-and-preserved / rejected / ...) coincide.  Variables are covered per option set by C04
against the same oracle.  Extern enums and the serde path are outside.
"""
import json
import vp_common as vc
import krun
import abstract_common as AC

PROP = 'C09'


def build(c):
    c.derive_modules(lambda e: [v for v in e['variants'] if v in ('base', 'rust')] + ['opts'])
    c.add_relational_harnesses(PROP, lambda e: [('base', 'rust')] + ([('base', 'opts')] if (e.get('scalars') or c.tier == 'thorough') else []))


def main():
    return krun.standard_check(
        PROP, build, ok_real=lambda v: v == 'Ok',
        describe='two option sets that must be wire-neutral disagree on a payload',
        level_text='relational bounded model checking of two generated types on one symbolic payload',
        assumptions=['SV / CheckSer harness models mirror serde_json::Value (validated natively on every run)',
                     'option pairs: normalization none vs rust; default vs (extra derives, pub(crate), custom_scalars_module)',
                     'payload shapes and operations as in C01 / C03'],
        jobs=6, pre=lambda out: AC.part(PROP, out, with_render=False))


def replay(path):
    def other(p):
        import consumer
        import abstract_common as AC
        C = consumer.Consumer(vc.scratch(PROP + 'r'))
        if p.get('kind') == 'trait-lists':
            import native
            ok, desc, _ = AC.confirm_trait_lists(native.ReplayTool(vc.scratch(PROP + 't')), p['model'])
        elif p.get('kind') == 'enum-literals':
            ok, desc, _ = AC.confirm_enum_literals(C, p['model'])
        else:
            ok, desc, _ = AC.confirm(C, p['model'], other_variant=p['model'].get('fragments_other_variant', False))
        print(desc)
        return 1 if ok is False else 0
    return krun.replay_generic(PROP, build, lambda v: v == 'Ok', path, other=other)
