"""Shared by C01 / C03 / C09: the engine-M kernel on abstract (interface / union) selections and its native replay."""
import json

import consumer
import kernels as K
import synth


def run_kernel(R, tier, objects=False):
    jobs = [(K.k_abstract_selection, (3,))]
    if tier == 'thorough':
        jobs.append((K.k_abstract_selection, (4,)))
    if objects:
        jobs.append((K.k_object_selection, (2 if tier == 'quick' else 3,)))
    return R.run_parallel(jobs)


def confirm(C, model, other_variant=False):
    """compile the operation in a consumer crate and round-trip one payload per possible runtime type.
    returns (ok, description, replay payload)"""
    schema, query, payloads, possible = synth.abstract_texts(model)
    attrs = 'fragments_other_variant = true, ' if other_variant else ''
    if model.get('normalization') == 'Rust':
        attrs += 'normalization = "rust", '
    err = C.build(schema, query, 'Q', 'q', attrs=attrs)
    rp = dict(schema=schema, query=query, model=model)
    if err:
        return None, 'consumer crate does not compile: ' + err[-300:].replace('\n', ' | '), rp
    res = C.run('response', payloads)
    for obj, p, (st, val) in zip(possible, payloads, res):
        want = synth.expected_keys(model, obj)
        if st != 'ok':
            return False, f'payload {json.dumps(p)} for `{query.splitlines()[0]}` is rejected: {val}', rp
        got = set(_flatten_keys(val.get('n') or {}))
        missing = sorted(k for k in want if k not in got and k != '__typename')
        if missing:
            return False, f'`{query.splitlines()[0]}` with runtime type O{obj}: selected keys {missing} are lost (re-serialized: {json.dumps(val)})', rp
    unknown = C.run('response', [{'n': {'__typename': 'Nope'}}])
    if unknown and (unknown[0][0] == 'ok') != other_variant:
        return False, f'unknown __typename is {"accepted" if unknown[0][0] == "ok" else "rejected"} with fragments_other_variant={other_variant}', rp
    return True, 'round trip ok', rp


def confirm_object(C, model):
    """object-typed parent: every selected key of the payload must survive the round trip"""
    schema, query, payload, keys = synth.object_texts(model)
    rp = dict(schema=schema, query=query, model=model)
    attrs = f'deprecated = "{model["strategy"].lower()}", ' if model.get('strategy') else ''
    err = C.build(schema, query, 'Q', 'q', attrs=attrs)
    if err:
        import re as _re
        first = _re.search(r'^error[^\n]*(\n[^\n]*){0,4}', err, _re.M)
        first = (first.group(0) if first else err[-300:]).replace('\n', ' | ')
        if attrs and not C.build(schema, query, 'Q', 'q'):
            return False, f'`{query.splitlines()[0]}`: the module generated with {attrs.strip(", ")} does not compile although the same operation compiles with the default strategy: {first}', rp
        return None, 'consumer crate does not compile: ' + first, rp
    (st, val), = C.run('response', [payload])
    if st != 'ok':
        return False, f'payload {json.dumps(payload)} for `{query.splitlines()[0]}` is rejected: {val}', rp
    got = set((val.get('n') or {}).keys())
    missing = sorted(k for k in keys if k not in got and k != '__typename')
    if missing:
        return False, f'`{query.splitlines()[0]}` (parent is the object type): selected keys {missing} are lost (re-serialized: {json.dumps(val)})', rp
    return True, 'round trip ok', rp


def _flatten_keys(o):
    return list(o.keys()) if isinstance(o, dict) else []


def part(prop, out, with_render=False):
    """engine-M part of C03 / C09 on interface / union selections (and, for C03, the `default` attribute claim)"""
    import vp_common as vc
    import mcheck
    sc = vc.scratch(prop + 'm')
    R = mcheck.MRun(vc.REPO, sc, 'codegen', max_depth=80, max_paths=80000)
    cands = [c for c in run_kernel(R, vc.tier()) if c['prop'] == prop]
    if with_render:
        cands += [c for c in K.k_render_field(R, 2 if vc.tier() == 'quick' else 3, {prop}) if c['prop'] == prop]
        # "a non-list where a list is required fails" rests on every list level of the type expression reaching the generated
        # type: the two type-reference kernels (SDL AST, introspection TypeRef chain), counterexamples replayed as payloads
        depth = 4 if vc.tier() == 'quick' else 6
        for c in K.k_resolve_field_type(R, depth) + K.k_from_json_type(R, depth) + K.k_decorate_type(R, depth + 1):
            ql = c['qualifiers']
            if not any(a == 'R' and b == 'R' for a, b in zip(ql, ql[1:])):
                cands.append(dict(kernel='nesting:' + c['kernel'], prop=prop, what='nesting:' + c['kernel'], model=dict(qualifiers=ql, via='json' if c['kernel'] == 'from_json_type_inner' else 'sdl')))
    if prop == 'C09':
        # the trait lists (response_derives / variables_derives) are unconstrained strings in the field kernel: no serde
        # attribute may depend on them
        cands += [c for c in K.k_render_field(R, 1 if vc.tier() == 'quick' else 2, {prop}) if c['prop'] == prop]
        # naming conventions must not reach the wire strings of enums either (value names unconstrained, normalization symbolic)
        for nv in ((1, 2) if vc.tier() == 'quick' else (1, 2, 3)):
            for c in K.k_enum_definition(R, nv):
                if c['prop'] == 'C10' and c['model'].get('normalization') != 'None':
                    cands.append(dict(c, prop=prop, what='C09:enum-wire-strings-depend-on-normalization'))
    C = consumer.Consumer(sc)
    seen = set()
    replayed = 0
    for c in sorted(cands, key=lambda c: len(json.dumps(c['model']))):
        role = c['what']
        if role in seen or len(seen) >= 3:
            continue
        seen.add(role)
        if c['kernel'] == 'abstract_selection':
            ok, desc, rp = confirm(C, c['model'], other_variant=c['model'].get('fragments_other_variant', False))
        elif c['kernel'].startswith('nesting:'):
            ok, desc, rp = confirm_nesting(C, c['model'])
        elif c['kernel'] == 'render' and prop == 'C09':
            import native
            ok, desc, rp = confirm_trait_lists(native.ReplayTool(sc), c['model'])
        elif c['kernel'] == 'enum_definition':
            ok, desc, rp = confirm_enum_literals(C, c['model'])
        else:
            ok, desc, rp = confirm_required(C, c['model'])
        replayed += 1
        if ok is False:
            out.violation('abstract:' + role if c['kernel'] == 'abstract_selection' else 'field:' + role, desc, dict(dict(kind='solver', claim=c['what']), **rp))
        elif ok is None:
            out.inconc(f'counterexample could not be replayed: {desc}')
        else:
            out.inconc(f'counterexample {c["what"]} {c["model"]} did not reproduce natively')
    for w in R.inconclusive:
        out.inconc(w)
    ev = R.evidence()
    ev.update(paths=R.paths, obligations=R.obligations, discharged=R.discharged, replayed=replayed, samples=R.samples[:3])
    return ev


ENUM_SETS = {1: [['NORTH'], ['type']],
             2: [['type', 'typeName'], ['INACTIVE', 'IN_PROGRESS'], ['NORTH', 'south_east']],
             3: [['name', 'type', 'typeName'], ['DONE', 'INACTIVE', 'IN_PROGRESS'], ['NORTH', 'south_east', 'type']]}


def confirm_enum_literals(C, model):
    """replay of kernels.k_enum_definition in a consumer crate: every schema value must deserialize to its own variant
    (not `Other`, and the variant named after it) and serialize back to itself, under the model's normalization.  The
    case conversions and the byte order of names are abstract in the kernel, so besides the model's value names (when
    they are GraphQL names) a few sets are tried on which conventions and orders disagree."""
    import re
    name_ok = re.compile(r'^[_A-Za-z][_0-9A-Za-z]*$')
    vals0 = model['values']
    sets = [vals0] if (all(name_ok.match(v) for v in vals0) and len(set(vals0)) == len(vals0)) else []
    sets += ENUM_SETS.get(len(vals0), [])
    rust = model.get('normalization') == 'Rust'
    norm = lambda x: x.replace('_', '').lower()
    rp = None
    for k_, vals in enumerate(sets):
        # (every other set is preceded by a body-less enum and followed by another enum: the definitions must stay aligned)
        sdl = ('enum Stub\n' if k_ % 2 else '') + f"enum E {{ {' '.join(vals)} }}\nenum Zz {{ QQ }}\ntype Query {{ e: E z: Zz }}\n"
        rp = dict(kind='enum-literals', sdl=sdl, values=vals, model=dict(model, values=vals))
        err = C.build(sdl, 'query Q { e }\n', 'Q', 'q', attrs='normalization = "rust", ' if rust else '')
        if err:
            return None, 'consumer crate does not compile: ' + err[-300:].replace('\n', ' | '), rp
        payloads = [{'e': v} for v in vals]
        where = f"enum E {{ {' '.join(vals)} }} under normalization {model.get('normalization')}"
        for p_, (st, val), (st2, dbg) in zip(payloads, C.run('response', payloads), C.run('debug', payloads)):
            if st != 'ok' or st2 != 'ok':
                return False, f'{where}: the schema value {p_["e"]!r} is rejected: {val}', rp
            if val.get('e') != p_['e']:
                return False, f'{where}: the schema value {p_["e"]!r} re-serializes as {json.dumps(val)}', rp
            if 'Other(' in dbg:
                return False, f'{where}: the schema value {p_["e"]!r} deserializes to the catch-all variant ({dbg}) instead of its own', rp
            mv = re.search(r'Some\((\w+)\)', dbg)
            if mv and norm(mv.group(1)) != norm(p_['e']):
                return False, f'{where}: the schema value {p_["e"]!r} deserializes to the variant `{mv.group(1)}`, which is named after another value', rp
    return True, 'schema values map to their own variants and back', rp


def confirm_trait_lists(rt, model):
    """C09 replay: the same field generated under different spellings of the trait lists must carry the same attributes"""
    import native
    expr = K.graphql_type_expr(model.get('qualifiers') or [], 'Int')
    sdl = f'type Query {{ f: {expr} g: [Int] }}\n'
    query = 'query Q { f g }\n'
    spellings = ['Serialize', 'serde::Serialize', 'Debug', 'Debug, Serialize, PartialEq']
    if model.get('response_derives') and all(ch.isalnum() or ch in ':, _' for ch in model['response_derives']):
        spellings.append(model['response_derives'])
    which = 'response_derives'
    if model.get('field_type') == 'ID' or 'serde-path' in str(model.get('claim', '')):
        # the serde path option: spellings of the same crate, on an ID field
        which, spellings = 'serde_path', ['::serde', 'serde', 'graphql_client::_private::serde']
        sdl = f'type Query {{ f: {K.graphql_type_expr(model.get("qualifiers") or [], "ID")} g: [Int] }}\n'
        expr = K.graphql_type_expr(model.get('qualifiers') or [], 'ID')
    seen = {}
    rp = dict(kind='trait-lists', sdl=sdl, query=query, model=model)
    for sp in spellings:
        r = rt.gen(sdl, query, {'skip_serializing_none': bool(model.get('skip_serializing_none', True)), which: sp})
        if r['status'] != 'ok':
            return None, f'generation fails with response_derives = {sp!r}: {r["text"][:200]}', rp
        mod = native.find_mod(native.parse_generated(r['text']))
        it = native.find_item(mod.items, 'ResponseData', 'struct')
        # (the serde path itself appears in `crate = ".."` on the item, not on fields)
        attrs = {f[0]: sorted(' '.join(a) for a in f[2] if a and a[0] == 'serde') for f in it.fields} if it else None
        seen[sp] = attrs
    base = seen[spellings[0]]
    for sp, attrs in seen.items():
        if attrs != base:
            return False, (f'`f: {expr}`, `g: [Int]` with skip_serializing_none: the serde attributes of ResponseData differ between {which} = {spellings[0]!r} '
                           f'({base}) and {sp!r} ({attrs})'), rp
    return True, 'attributes independent of the trait lists', rp


def confirm_nesting(C, model):
    """every payload that puts a scalar where the type expression requires a list must be rejected"""
    ql, via = model['qualifiers'], model.get('via', 'sdl')
    expr = K.graphql_type_expr(ql, 'Int')
    sdl = f'schema {{ query: Query }}\ntype Query {{ f: {expr} g: Int }}\n'
    query = 'query Q { f g }\n'
    rp = dict(schema=sdl, query=query, model=model)
    if via == 'json':
        import gql
        import introspect
        err = C.build(introspect.to_introspection(gql.parse_schema(sdl)), query, 'Q', 'q', schema_ext='json')
    else:
        err = C.build(sdl, query, 'Q', 'q')
    if err:
        return None, 'consumer crate does not compile: ' + err[-300:].replace('\n', ' | '), rp
    depth = sum(1 for q in ql if q == 'L')

    def value(levels, cut):
        # nested singleton lists `levels` deep; at depth `cut` a scalar stands where the list should be
        if levels == 0 or cut == 0:
            return 7
        return [value(levels - 1, cut - 1)]
    bad = [{'f': value(depth, cut), 'g': 1} for cut in range(depth)]
    res = C.run('response', bad)
    for p_, (st, val) in zip(bad, res):
        if st == 'ok':
            return False, f'`f: {expr}` ({via}): the payload {json.dumps(p_)} with a scalar where a list is required is accepted as {json.dumps(val)}', rp
    # null at a non-null level (outer value, some list's items, the named type) must be rejected as well
    levels, pending = [], False
    for q in ql:
        if q == 'R':
            pending = True
        else:
            levels.append(pending)
            pending = False
    levels.append(pending)          # the named type itself

    def with_null(at, k=0):
        if k == at:
            return None
        return [with_null(at, k + 1)] if k < len(levels) - 1 else 7
    nulls = [{'f': with_null(at), 'g': 1} for at, nonnull in enumerate(levels) if nonnull]
    for p_, (st, val) in zip(nulls, C.run('response', nulls)):
        if st == 'ok':
            return False, f'`f: {expr}` ({via}): the payload {json.dumps(p_)} with null at a non-null position is accepted as {json.dumps(val)}', rp
    return True, 'non-lists and misplaced nulls rejected', rp


def confirm_required(C, model):
    """a non-null field must reject a payload without its key"""
    ty = model.get('field_type') or 'Int'
    if ty not in ('ID', 'Int', 'String'):
        ty = 'Int'
    expr = K.graphql_type_expr(model['qualifiers'], ty)
    schema, query = f'type Query {{ f: {expr} g: Int }}\n', 'query Q { f g }\n'
    rp = dict(schema=schema, query=query, model=model)
    err = C.build(schema, query, 'Q', 'q')
    if err:
        return None, 'consumer crate does not compile: ' + err[-300:].replace('\n', ' | '), rp
    res = C.run('response', [{'g': 1}])
    nonnull = bool(model['qualifiers']) and model['qualifiers'][0] == 'R'
    if nonnull and res and res[0][0] == 'ok':
        return False, f'`f: {expr}` is non-null but a payload without the key is accepted: {json.dumps(res[0][1])}', rp
    return True, 'missing key rejected', rp
