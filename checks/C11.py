"""C11 - Rust keywords and naming conventions never reach the wire or break the build (engine M).

Kernels executed symbolically, names as unconstrained z3 strings, heck's case
conversions as free functions of the name:
  keyword_replace               - every reference keyword is escaped; result is s or s_ and never a keyword
  ExpandedField::render         - response fields: the serde wire name is the GraphQL name (alias)
  generate_variable_struct_field, generate_struct / generate_enum member closures
                                - variables, input fields, @oneOf variants: same claim
Counterexamples are replayed in a consumer crate (compile + JSON round trip); because the
case conversion is abstract in the model, the replay also tries the reference keywords at
the failing position.
"""
import json
import re
import time

import vp_common as vc
import consumer
import mcheck
import kernels as K

PROP = 'C11'
NAME_RE = re.compile(r'^[_A-Za-z][_0-9A-Za-z]*$')


def site_texts(site, name):
    if site == 'response':
        return f'type Query {{ {name}: Int }}\n', f'query Q {{ {name} }}\n', 'response', {name: 5}
    if site == 'alias':
        return 'type Query { x: Int }\n', f'query Q {{ {name}: x }}\n', 'response', {name: 5}
    if site == 'variable':
        return 'type Query { x(a: Int): Int }\n', f'query Q(${name}: Int) {{ x(a: ${name}) }}\n', 'variables', {name: 5}
    if site == 'input':
        return f'type Query {{ x(a: I): Int }}\ninput I {{ {name}: Int }}\n', 'query Q($v: I) { x(a: $v) }\n', 'variables', {'v': {name: 5}}
    if site == 'oneof':
        return f'type Query {{ x(a: I): Int }}\ninput I @oneOf {{ {name}: Int other: Int }}\n', 'query Q($v: I) { x(a: $v) }\n', 'variables', {'v': {name: 5}}
    raise ValueError(site)


def confirm(C, site, name, attrs=''):
    schema, query, what, payload = site_texts(site, name)
    err = C.build(schema, query, 'Q', 'q', attrs=attrs)
    if err:
        m = re.search(r'error(\[E\d+\])?: [^\n]*', err)
        return False, f'{site} named `{name}`: generated code does not compile: {m.group(0) if m else err[-200:]}', schema, query
    res = C.run(what, [payload])
    if not res or res[0][0] != 'ok':
        return False, f'{site} named `{name}`: payload {json.dumps(payload)} with the GraphQL name is rejected: {res[0][1] if res else "no output"}', schema, query
    got = res[0][1] if what == 'response' else res[0][1].get('variables')
    if got != payload:
        return False, f'{site} named `{name}`: wire form is {json.dumps(got)}, expected {json.dumps(payload)}', schema, query
    return True, 'ok', schema, query


SITE_OF = {'field_name': 'response', 'render': 'response', 'variable_field': 'variable', 'input_member_struct': 'input', 'input_member_oneof': 'oneof'}


def main():
    t0 = time.time()
    tier = vc.tier()
    out = vc.Outcome(PROP)
    sc = vc.scratch(PROP)
    R = mcheck.MRun(vc.REPO, sc, 'codegen', max_depth=60)
    maxq = 1 if tier == 'quick' else 2
    cands = []
    cands += K.k_keyword_replace(R)
    cands += K.k_field_name(R)
    cands += K.k_render_field(R, maxq, {'C11'})
    cands += K.k_variable_field(R, 0 if tier == 'quick' else 1)
    cands += K.k_input_member(R, 'struct', 0 if tier == 'quick' else 1)
    cands += K.k_input_member(R, 'oneof', 0 if tier == 'quick' else 1)
    cands = [c for c in cands if c['prop'] == 'C11']
    # enum values are a name position too: the enum-definition kernel (see C10) with unconstrained value names
    enum_cands = [c for nv in ((1, 2) if tier == 'quick' else (1, 2, 3)) for c in K.k_enum_definition(R, nv) if c['prop'] == 'C10']
    C = consumer.Consumer(sc)
    replayed = 0
    by_site = {}
    for c in cands:
        by_site.setdefault(c['kernel'], []).append(c)
    for kernel, cs in by_site.items():
        if kernel == 'keyword_replace':
            c = cs[0]
            name = c.get('input', '')
            sites = ['response', 'variable', 'input']
            names = [name] if NAME_RE.match(name or '') else []
        else:
            sites = [SITE_OF[kernel]] + (['alias'] if kernel in ('render', 'field_name') else [])
            names = []
            for c in cs[:4]:
                n = c['model'].get('graphql_name') or c['model'].get('name')
                if n and NAME_RE.match(n) and n not in names:
                    names.append(n)
        # the case conversions are abstract in the model: also try the reference keywords and their spellings
        extra = ['type', 'snake_case', 'Self', 'PascalCase', '_type', 'externalID', 'SCREAMING', 'self', 'Type', 'crate', 'async', 'final', 'try', 'union', 'fn', 'camelCase', '_lead', 'a1']
        tried = 0
        hit = False
        for site in sites:
            for name in names + [x for x in extra if NAME_RE.match(x)]:
                if tried >= (6 if tier == 'quick' else 14):
                    break
                ok, desc, schema, query = confirm(C, site, name)
                tried += 1
                replayed += 1
                if not ok:
                    hit = True
                    out.violation(f'{site}:{name}', desc, dict(kind='solver', kernel=kernel, site=site, name=name, schema=schema, query=query, claim=cs[0]['what'], model=cs[0].get('model')))
                    break
            if hit:
                break
        if not hit:
            out.inconc(f'{kernel}: solver counterexample for {cs[0]["what"]} ({cs[0].get("model") or cs[0].get("input")}) was not reproduced natively with {tried} concrete names '
                       '(the abstract case conversion may not be realisable)')
    if enum_cands:
        import abstract_common as AC
        ok, desc, rp = AC.confirm_enum_literals(C, enum_cands[0]['model'])
        replayed += 1
        if ok is False:
            out.violation('enum-value', desc, rp)
        else:
            out.inconc(f"enum-value counterexample {enum_cands[0]['model']} did not reproduce natively")
    for w in R.inconclusive:
        out.inconc(w)
    cross = R.cross_check(limit=4 if tier == 'quick' else 20)
    coverage = dict(
        states=R.paths, transitions=R.vm.queries, traces_validated_against_impl=replayed, samples=R.samples[:10],
        obligations=R.obligations, discharged=R.discharged,
        bounds=dict(names='unconstrained strings', qualifiers=maxq, keywords=len(K.RUST_KEYWORDS_REF)),
        outside_bounds='whether heck can produce a given spelling (conversions are uninterpreted); enum values (see C10); rustc accepting the identifier',
        engine=R.evidence(), cross_check=cross, exhaustive=False)
    vc.write_evidence(PROP, 'model_checking', coverage,
                      ['heck::to_snake_case / to_upper_camel_case are arbitrary functions of the name', 'reference keyword list = The Rust Reference, editions 2015-2021',
                       '<[&str]>::binary_search is specified on a sorted table; sortedness is checked on the table constant read from the same MIR',
                       'library summaries listed under engine.summaries_used'], time.time() - t0, violations=len(out.violations))
    return out.finish()


def replay(path):
    p = json.load(open(path))
    if p.get('kind') == 'enum-literals':
        import abstract_common as AC
        ok, desc, _ = AC.confirm_enum_literals(consumer.Consumer(vc.scratch(PROP + 'r')), p['model'])
        print(desc)
        return 1 if ok is False else 0
    sc = vc.scratch(PROP + 'r')
    ok, desc, _s, _q = confirm(consumer.Consumer(sc), p['site'], p['name'])
    print(desc)
    return 0 if ok else 1
