"""Turn solver models (graphs of input types / fragments) into GraphQL texts for native replay."""


def input_graph_texts(graph, start, one_of=()):
    """graph: [(name, [(field, type expr)])] -> (schema SDL, query text) with a variable of type `start`"""
    lines = ['schema { query: Query }', 'type Query { x(v: %s): Int }' % start]
    for name, fields in graph:
        oo = ' @oneOf' if name in one_of else ''
        lines.append('input %s%s { %s }' % (name, oo, ' '.join(f'{fn}: {ty}' for fn, ty in fields)))
    schema = '\n'.join(lines) + '\n'
    query = 'query Q($v: %s) { x(v: $v) }\n' % start
    return schema, query


FRAG_SCHEMA = '''schema { query: Query }
type Query { n: Iface u: Uni o: Obj }
interface Iface { leaf: Int field: Obj }
union Uni = Obj
type Obj implements Iface { leaf: Int field: Obj }
'''


def fragment_texts(fragments, use=None):
    """fragments: [{name, on: Obj|Iface|Uni, selections: [..]}] as produced by kernels.fragments_of_model"""
    out = []
    for fr in fragments:
        sels = []
        for s in fr['selections']:
            if s == 'leaf':
                sels.append('leaf' if fr['on'] != 'Uni' else '__typename')
            elif s.startswith('field{'):
                inner = s[6:-1]
                inner = 'leaf' if inner == 'leaf' else inner
                sels.append('field { %s }' % inner if fr['on'] != 'Uni' else '... on Obj { field { %s } }' % inner)
            else:
                sels.append(s)
        out.append('fragment %s on %s { %s }' % (fr['name'], fr['on'], ' '.join(sels)))
    q = 'query Q { o { leaf } }'
    if use is not None:
        fr = fragments[use]
        root = {'Obj': 'o', 'Iface': 'n', 'Uni': 'u'}[fr['on']]
        q = 'query Q { %s { ...%s } }' % (root, fr['name'])
    return FRAG_SCHEMA, q + '\n' + '\n'.join(out) + '\n'
