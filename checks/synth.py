"""Turn solver models (graphs of input types / fragments) into GraphQL texts for native replay."""


def input_graph_texts(graph, start, one_of=()):
    """graph: [(name, [(field, type expr)])] -> (schema SDL, query text) with a variable of type `start`"""
    lines = ['schema { query: Query }', 'type Query { x(v: %s): Int }' % start]
    for name, fields in graph:
        oo = ' @oneOf' if name in one_of else ''
        lines.append('input %s%s { %s }' % (name, oo, ' '.join(f'{fn}: {ty}' for fn, ty in fields)))
    schema = '\n'.join(lines) + '\n'
    query = 'query Q($v: %s) { x(v: $v) }\n' % start
    return schema, query


FRAG_SCHEMA = '''schema { query: Query }
type Query { n: Iface u: Uni o: Obj }
interface Iface { leaf: Int field: Obj }
union Uni = Obj
type Obj implements Iface { leaf: Int field: Obj }
'''


def fragment_texts(fragments, use=None):
    """fragments: [{name, on: Obj|Iface|Uni, selections: [..]}] as produced by kernels.fragments_of_model"""
    out = []
    for fr in fragments:
        sels = []
        nfield = sum(1 for s in fr['selections'] if s.startswith('field{'))
        k = 0
        for s in fr['selections']:
            if s == 'leaf':
                sels.append('leaf' if fr['on'] != 'Uni' else '__typename')
            elif s.startswith('field{'):
                inner = s[6:-1]
                inner = 'leaf' if inner == 'leaf' else inner
                # the same field selected twice gets aliases (equal response keys would be one struct member twice)
                alias = f'f{k}: ' if nfield > 1 else ''
                k += 1
                sels.append(f'{alias}field {{ {inner} }}' if fr['on'] != 'Uni' else f'... on Obj {{ {alias}field {{ {inner} }} }}')
            else:
                sels.append(s)
        out.append('fragment %s on %s { %s }' % (fr['name'], fr['on'], ' '.join(sels)))
    q = 'query Q { o { leaf } }'
    if use is not None:
        fr = fragments[use]
        root = {'Obj': 'o', 'Iface': 'n', 'Uni': 'u'}[fr['on']]
        q = 'query Q { %s { ...%s } }' % (root, fr['name'])
    return FRAG_SCHEMA, q + '\n' + '\n'.join(out) + '\n'


def abstract_texts(model):
    """schema / query / payloads for a model of kernels.k_abstract_selection"""
    impl, memb = model['implements'], model['members']
    ON = model.get('obj_names') or ['O0', 'O1']
    parent = 'I0' if model['parent'] == 'interface' else 'U0'
    lines = ['schema { query: Query }', f'type Query {{ n: {parent} }}', 'interface I0 { leaf: Int }']
    for o in range(2):
        lines.append(f'type {ON[o]}{" implements I0" if impl[o] else ""} {{ leaf: Int f1: Int f2: Int next: {ON[o]} }}')
    members = [ON[o] for o in range(2) if memb[o]] or [ON[0]]
    lines.append('union U0 = ' + ' | '.join(members))
    schema = '\n'.join(lines) + '\n'
    on = {'O0': ON[0], 'O1': ON[1], 'PARENT': parent}
    frag_field = lambda k, t: ('__typename' if t == 'U0' else ('leaf' if t == 'I0' else f'f{k}'))
    def frag_body(k):
        t = on[model[f'F{k}_on']]
        body = frag_field(k, t)
        if k == 1 and model.get('recursive_f1') and t in ON:
            body += ' next { ...F1 }'          # F1 spreads itself through an object field
        return body
    frags = [f"fragment F{k} on {on[model[f'F{k}_on']]} {{ {frag_body(k)} }}" for k in (1, 2)]
    sels = [s_.replace('... on O0', '... on ' + ON[0]).replace('... on O1', '... on ' + ON[1]) for s_ in model['selections']]
    query = 'query Q { n { ' + ' '.join(sels) + ' } }\n' + '\n'.join(frags) + '\n'
    # one payload per possible object type carrying every field the operation can select on it
    possible = [o for o in range(2) if (impl[o] if parent == 'I0' else memb[o])]
    payloads = [{'n': {'__typename': ON[o], 'leaf': 1, 'f1': 2, 'f2': 3}} for o in possible]
    return schema, query, payloads, possible


def expected_keys(model, obj):
    """keys of the payload object that the operation selects when the runtime type is O<obj>"""
    parent_is_iface = model['parent'] == 'interface'
    keys = {'__typename'}
    for s in model['selections']:
        if s == 'leaf':
            keys.add('leaf')
        elif s.startswith('... on O'):
            if int(s[8]) == obj:
                keys.add('leaf')
        elif s.startswith('...F'):
            k = int(s[4])
            t = model[f'F{k}_on']
            if t == f'O{obj}':
                keys.add(f'f{k}')
            elif t == 'PARENT' and parent_is_iface:
                keys.add('leaf')
    return keys


def object_texts(model):
    """schema / query / payload / expected keys for a model of kernels.k_object_selection (parent = the object type o0)"""
    import re as _re
    ON = model.get('obj_names') or ['O0', 'O1']
    impl = model['implements']
    deprecated = model.get('deprecated') or []
    deny = model.get('strategy') == 'Deny'
    dep = lambda n: ' @deprecated(reason: "why")' if n in deprecated else ''
    lines = ['schema { query: Query }', f'type Query {{ n: {ON[0]} }}', 'interface I0 { leaf: Int g1: Int g2: Int }']
    lines.append(f'type {ON[0]}{" implements I0" if impl[0] else ""} {{ leaf: Int{dep("leaf")} g1: Int g2: Int f1: Int f2: Int sub: {ON[1]}{dep("sub")} }}')
    lines.append(f'type {ON[1]}{" implements I0" if impl[1] else ""} {{ leaf: Int g1: Int g2: Int f1: Int f2: Int }}')
    lines.append(f'union U0 = {ON[0]} | {ON[1]}')
    schema = '\n'.join(lines) + '\n'
    frags, keys = [], set()
    for k in (1, 2):
        on = model[f'F{k}_on']
        body = f'f{k}' if on == ON[0] else (f'__typename g{k}' if on == 'I0' else '__typename')
        frags.append(f'fragment F{k} on {on} {{ {body} }}')
    text = ' '.join(model['selections'])
    for s_ in model['selections']:
        if s_ == '__typename':
            keys.add('__typename')
        elif s_.startswith('sub'):
            if not (deny and 'sub' in deprecated):
                keys.add('sub')
        elif s_ == 'leaf' or (s_.startswith('... on') and 'leaf' in s_):
            if not (deny and 'leaf' in deprecated):
                keys.add('leaf')
    for k in (1, 2):
        if _re.search(rf'\.\.\.F{k}\b', text):
            on = model[f'F{k}_on']
            keys |= {f'f{k}'} if on == ON[0] else ({'__typename', f'g{k}'} if on == 'I0' else {'__typename'})
    used = [f for f, k in zip(frags, (1, 2)) if _re.search(rf'\.\.\.F{k}\b', text)]
    query = 'query Q { n { ' + text + ' } }\n' + '\n'.join(used) + '\n'
    payload = {'n': {'__typename': ON[0], 'leaf': 1, 'g1': 4, 'g2': 5, 'f1': 2, 'f2': 3, 'sub': {'leaf': 9}}}
    return schema, query, payload, keys


def abstract_recursive_texts(model):
    """the recursive-F1 scenario of kernels.k_abstract_selection rendered so that the cycle is real: F1 (on an object type)
    has a field of the abstract type whose selection set is the model's selection list, in which F1 is spread again:
        fragment F1 on O { f1 nexta { <selections incl. ...F1> } }
    Returns (schema, query) or None when the model does not spread F1 / F1 is not on an object type."""
    ON = model.get('obj_names') or ['O0', 'O1']
    on = {'O0': ON[0], 'O1': ON[1]}
    if model['F1_on'] not in on or '...F1' not in model['selections']:
        return None
    impl, memb = model['implements'], model['members']
    parent = 'I0' if model['parent'] == 'interface' else 'U0'
    lines = ['schema { query: Query }', f'type Query {{ start: {on[model["F1_on"]]} }}', 'interface I0 { leaf: Int }']
    for o in range(2):
        lines.append(f'type {ON[o]}{" implements I0" if impl[o] else ""} {{ leaf: Int f1: Int f2: Int nexta: {parent} }}')
    members = [ON[o] for o in range(2) if memb[o]] or [ON[0]]
    lines.append('union U0 = ' + ' | '.join(members))
    schema = '\n'.join(lines) + '\n'
    sels = [s_.replace('... on O0', '... on ' + ON[0]).replace('... on O1', '... on ' + ON[1]) for s_ in model['selections']]
    if parent == 'U0':
        sels = [s_ for s_ in sels if s_ != 'leaf']
    f2_on = {'O0': ON[0], 'O1': ON[1], 'PARENT': parent}[model['F2_on']]
    f2_body = '__typename' if f2_on == 'U0' else ('__typename leaf' if f2_on == 'I0' else 'f2')
    frags = [f'fragment F1 on {on[model["F1_on"]]} {{ f1 nexta {{ {" ".join(sels)} }} }}']
    if '...F2' in model['selections']:
        frags.append(f'fragment F2 on {f2_on} {{ {f2_body} }}')
    query = 'query Q { start { ...F1 } }\n' + '\n'.join(frags) + '\n'
    return schema, query
