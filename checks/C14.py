"""C14 - deprecation strategies allow / warn / deny do exactly what is documented (engine M).

  ExpandedField::render  - symbolic deprecation (none / without reason / with reason r) x strategy
                           (unset = warn, allow, warn, deny): field omitted iff deprecated and deny;
                           #[deprecated] iff deprecated and warn; `note = r` carries r verbatim.
  find_deprecation       - SDL directive lists (<= 2 directives x 2 arguments, names / values symbolic).
Native differential (concrete, every run): one schema as SDL and as introspection JSON, deprecated with /
without reason / not deprecated, object and interface fields, under the three strategies and the default.
"""
import json
import time

import vp_common as vc
import native
import introspect
import gql
import mcheck
import kernels as K

PROP = 'C14'

SDL = '''schema { query: Query }
interface Node { old: Int @deprecated(reason: "use \\"new\\" id") id: Int }
type Query implements Node {
  old: Int @deprecated(reason: "use \\"new\\" id")
  id: Int
  bare: String @deprecated
  fresh: String
  node: Node
}
'''
QUERY = 'query Q { old bare fresh node { __typename old id } }\n'


def field_attrs(text, struct):
    mod = native.find_mod(native.parse_generated(text))
    it = native.find_item(mod.items, struct, 'struct')
    return {f[0]: native.attr_strs(f[2]) for f in it.fields} if it else None


def expected(strategy, dep, reason):
    """attribute list and presence of a field"""
    if not dep:
        return True, None
    if strategy == 'deny':
        return False, None
    if strategy == 'allow':
        return True, None
    return True, ('deprecated' if reason is None else 'deprecated(note=' + json.dumps(reason) + ')')


def native_matrix(rt, out):
    n = 0
    schema = gql.parse_schema(SDL)
    sources = {'sdl': (SDL, 'graphql'), 'json': (introspect.to_introspection(schema), 'json'), 'json-data': (introspect.to_introspection(schema, wrap_data=True), 'json')}
    fields = {'old': (True, 'use "new" id'), 'bare': (True, None), 'fresh': (False, None)}
    for via, (src, ext) in sources.items():
        for strategy in (None, 'allow', 'warn', 'deny'):
            opts = {} if strategy is None else {'deprecation': strategy}
            r = rt.gen(src, QUERY, opts, schema_ext=ext)
            n += 1
            if r['status'] != 'ok':
                out.violation(f'native:{via}:{strategy}', f'generation failed: {r["text"][:200]}', dict(kind='native', via=via, strategy=strategy))
                continue
            eff = strategy or 'warn'
            for struct, names in (('ResponseData', fields), ('QNode', {'old': fields['old']})):
                attrs = field_attrs(r['text'], struct)
                if attrs is None:
                    out.violation(f'native:{via}:{strategy}:{struct}', f'struct {struct} not generated', dict(kind='native', via=via, strategy=strategy))
                    continue
                for name, (dep, reason) in names.items():
                    present, want = expected(eff, dep, reason)
                    got_present = name in attrs
                    dep_attrs = [a for a in attrs.get(name, []) if a.startswith('deprecated')]
                    ok = got_present == present and (not present or (dep_attrs == ([want] if want else [])))
                    if not ok:
                        out.violation(f'native:{via}:{eff}:{struct}.{name}', f'{struct}.{name} via {via} under {strategy or "default"}: present={got_present} attrs={dep_attrs}, '
                                      f'expected present={present} attr={want}', dict(kind='native', via=via, strategy=strategy, field=name, struct=struct, got=attrs.get(name)))
    return n


def main():
    t0 = time.time()
    tier = vc.tier()
    out = vc.Outcome(PROP)
    sc = vc.scratch(PROP)
    rt = native.ReplayTool(sc)
    rt.start_build()
    R = mcheck.MRun(vc.REPO, sc, 'codegen', max_depth=60)
    cands = [c for c in K.k_render_field(R, 1 if tier == 'quick' else 3, {'C14'}) if c['prop'] == 'C14']
    cands += K.k_find_deprecation(R, 2, 2 if tier == 'quick' else 3)
    # the strategy must only ever remove the deprecated fields themselves: selection expansion with symbolic deprecation / strategy
    cands += [c for c in K.k_object_selection(R, 2 if tier == 'quick' else 3) if c['prop'] == 'C14']
    nnat = native_matrix(rt, out)
    replayed = 0
    seen = set()
    for c in cands:
        if c['what'] in seen:
            continue
        seen.add(c['what'])
        if c['kernel'] == 'object_selection':
            import consumer
            import abstract_common as AC
            ok, desc, rp = AC.confirm_object(consumer.Consumer(sc), c['model'])
            replayed += 1
            if ok is False:
                out.violation('selection:deny-drops-other-fields', desc + f" (strategy {c['model']['strategy']}, deprecated {c['model']['deprecated']})", dict(kind='selection', **rp))
            elif ok is None:
                out.inconc(f'selection counterexample could not be replayed: {desc}')
            else:
                out.inconc(f"selection counterexample {c['model']} did not reproduce natively")
        elif c['kernel'] == 'render':
            mdl = c['model']
            name = 'f'
            reason = mdl['reason']
            dep = ''
            if mdl['deprecated']:
                dep = ' @deprecated' + (f'(reason: {json.dumps(reason)})' if reason is not None else '')
            sdl = f'type Query {{ {name}: Int{dep} }}\n'
            opts = {} if mdl['strategy'] is None else {'deprecation': mdl['strategy'].lower()}
            r = rt.gen(sdl, f'query Q {{ {name} }}\n', opts)
            replayed += 1
            present, want = expected((mdl['strategy'] or 'warn').lower(), mdl['deprecated'], reason)
            attrs = field_attrs(r['text'], 'ResponseData') if r['status'] == 'ok' else None
            got_present = attrs is not None and name in attrs
            dep_attrs = [a for a in (attrs or {}).get(name, []) if a.startswith('deprecated')]
            if r['status'] != 'ok' or got_present != present or (present and dep_attrs != ([want] if want else [])):
                out.violation(f"render:{c['what']}", f"field {mdl}: generated present={got_present} attrs={dep_attrs}; documented: present={present} attr={want}",
                              dict(kind='solver', model=mdl, sdl=sdl, options=opts))
            else:
                out.inconc(f"solver counterexample for {c['what']} did not reproduce natively: {mdl}")
        else:
            ds = c['directives']
            txt = ' '.join('@' + d + ('(' + ', '.join(f'{a}: {json.dumps(v) if isinstance(v, str) else "true"}' for a, v in args) + ')' if args else '') for d, args in ds)
            out.inconc(f'find_deprecation counterexample needs manual rendering: {txt} -> {c["got"]}')
    for w in R.inconclusive:
        out.inconc(w)
    cross = R.cross_check(limit=4 if tier == 'quick' else 20)
    coverage = dict(
        states=R.paths, transitions=R.vm.queries, traces_validated_against_impl=nnat + replayed, samples=R.samples[:8] + [dict(native_matrix='3 renderings x 4 strategies x 4 fields')],
        obligations=R.obligations, discharged=R.discharged,
        bounds=dict(strategies=4, deprecation_states=3, reasons='unconstrained strings'),
        outside_bounds='that rustc then warns / errors on use; deprecation read from JSON inside ingest_object (covered by the native matrix only)',
        engine=R.evidence(), cross_check=cross, exhaustive=False)
    vc.write_evidence(PROP, 'model_checking', coverage,
                      ['ExpandedField representation invariant (kernels.k_render_field)', 'directive and argument names are unique (GraphQL validity)',
                       'library summaries listed under engine.summaries_used'], time.time() - t0, violations=len(out.violations))
    return out.finish()


def replay(path):
    p = json.load(open(path))
    sc = vc.scratch(PROP + 'r')
    if p.get('kind') == 'selection':
        import consumer
        import abstract_common as AC
        ok, desc, _ = AC.confirm_object(consumer.Consumer(sc), p['model'])
        print(desc)
        return 1 if ok is False else 0
    if p.get('kind') == 'solver' and 'sdl' in p:
        rt = native.ReplayTool(sc)
        mdl = p['model']
        r = rt.gen(p['sdl'], 'query Q { f }\n', p.get('options') or {})
        present, want = expected((mdl['strategy'] or 'warn').lower(), mdl['deprecated'], mdl['reason'])
        attrs = field_attrs(r['text'], 'ResponseData') if r['status'] == 'ok' else None
        got_present = attrs is not None and 'f' in attrs
        dep_attrs = [a for a in (attrs or {}).get('f', []) if a.startswith('deprecated')]
        print(json.dumps(dict(present=got_present, attrs=dep_attrs, documented_present=present, documented_attr=want)))
        return 1 if (r['status'] != 'ok' or got_present != present or (present and dep_attrs != ([want] if want else []))) else 0
    print(json.dumps(p)[:800])
    return 1
