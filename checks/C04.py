"""C04 - Variables serialize to exactly the declared variables, validly typed (engine K-gen).

For every catalogue operation with variables and every assignment the oracle calls
valid within the shape bound (nullable members null / present, lists 0..2, enum
values, nested / recursive / @oneOf input objects to depth 2), CBMC decides that the
assignment is expressible as a `Variables` value (deserialization from the GraphQL
names succeeds) and that serialization reproduces it *exactly*: same keys, explicit
nulls without skip_serializing_none, omitted members with it.
"""
import krun

PROP = 'C04'


def build(c):
    c.derive_modules(lambda e: e['variants'])
    c.add_variables_harnesses(PROP, lambda e: e['variants'] if c.tier == 'thorough' else [v for v in e['variants'] if v in ('base', 'skip', 'rustskip')])


def main():
    return krun.standard_check(
        PROP, build, ok_real=lambda v: v == 'Ok',
        describe='a valid variables assignment is not expressible or does not serialize back exactly',
        level_text='bounded model checking of generated Serialize/Deserialize impls for Variables and input types',
        assumptions=['SV / CheckSer harness models mirror serde_json::Value (validated natively on every run)',
                     'the Variables value is obtained by deserializing the assignment (variables_derives adds Deserialize): reaches every value of the generated types except enum Other(..)',
                     'shapes: list lengths 0..2 (recursive inputs: 0..1), input recursion depth 2, strings concrete (quick)',
                     'operations: the catalogue under kgen/catalogue'],
        jobs=6)
