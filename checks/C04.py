"""C04 - Variables serialize to exactly the declared variables, validly typed (engine K-gen).

For every catalogue operation with variables and every assignment the oracle calls
valid within the shape bound (nullable members null / present, lists 0..2, enum
values, nested / recursive / @oneOf input objects to depth 2), CBMC decides that the
assignment is expressible as a `Variables` value (deserialization from the GraphQL
names succeeds) and that serialization reproduces it *exactly*: same keys, explicit
nulls without skip_serializing_none, omitted members with it.
"""
import json

import vp_common as vc
import krun

PROP = 'C04'


def attribute_part(out):
    """engine M: rename / skip_serializing_if / type nesting / Box decisions for Variables members, input-object fields and
    @oneOf variants, names and qualifiers symbolic; counterexamples replayed by a consumer-crate round trip"""
    import mcheck
    import consumer
    import kernels as K
    import C11
    tier = vc.tier()
    sc = vc.scratch(PROP + 'm')
    R = mcheck.MRun(vc.REPO, sc, 'codegen', max_depth=60)
    q = 2 if tier == 'quick' else 3
    cands = R.run_parallel([(K.k_variable_field, (q,)), (K.k_input_member, ('struct', q)), (K.k_input_member, ('oneof', q))])
    wire = [c for c in cands if c['prop'] == 'C11']
    cands = [c for c in cands if c['prop'] in ('C04', 'C13', 'C12')]
    C = consumer.Consumer(sc)
    seen = set()
    replayed = 0
    # a member whose serde name is not its GraphQL name serializes under the wrong key: the wire-name claims of the same
    # kernels matter here as well (replayed with the model's name and a few spellings the case conversions change)
    done_sites = set()
    for c in wire:
        site = C11.SITE_OF.get(c['kernel'])
        if site is None or site in done_sites:
            continue
        done_sites.add(site)
        n = (c.get('model') or {}).get('name') or (c.get('model') or {}).get('graphql_name')
        names = ([n] if n and C11.NAME_RE.match(n) else []) + ['snake_case', 'PascalCase', 'externalID', 'type']
        for name in names[:4]:
            ok, desc, schema, query = C11.confirm(C, site, name)
            replayed += 1
            if not ok:
                out.violation(f'wire-name:{site}', desc, dict(kind='wire-name', site=site, name=name, schema=schema, query=query, claim=c['what']))
                break
        else:
            out.inconc(f"{c['kernel']}: wire-name counterexample {c['what']} was not reproduced natively with {names[:4]}")
    for c in cands:
        if (c['kernel'], c['what']) in seen or len(seen) >= 3:
            continue
        seen.add((c['kernel'], c['what']))
        mdl = c['model']
        expr = K.graphql_type_expr(mdl['qualifiers'], 'Int' if mdl.get('target', 'S') == 'S' else mdl.get('target'))
        attrs = 'skip_serializing_none, ' if mdl.get('skip_serializing_none') else ''
        if c['kernel'] == 'variable_field':
            schema, query, payload = f'type Query {{ x(a: {expr}): Int }}\n', f'query Q($v: {expr}) {{ x(a: $v) }}\n', {'v': None}
            want = {} if mdl.get('skip_serializing_none') else {'v': None}
        else:
            oneof = ' @oneOf' if c['kernel'].endswith('oneof') else ''
            schema = f'type Query {{ x(a: I): Int }}\ninput I{oneof} {{ m: {expr} o: Int }}\ninput I1 {{ me: I1 }}\ninput I2 {{ x: Int }}\n'
            query = 'query Q($v: I!) { x(a: $v) }\n'
            payload = {'v': {'o': 1}} if oneof else {'v': {'m': None, 'o': None}}
            want = payload if (oneof or not mdl.get('skip_serializing_none')) else {'v': {}}
        nullable = not mdl['qualifiers'] or mdl['qualifiers'][0] != 'R'
        if not nullable and not c['kernel'].endswith('oneof'):
            out.inconc(f'counterexample on a non-null member needs a value payload (not rendered): {c["what"]} {mdl}')
            continue
        err = C.build(schema, query, 'Q', 'q', attrs=attrs)
        replayed += 1
        if err:
            out.violation(f"{c['kernel']}:{c['what']}", f'{c["what"]}: generated code for member of type {expr} does not compile: ' + err[-300:].replace('\n', ' | '), dict(kind='solver', model=mdl, schema=schema, query=query))
            continue
        res = C.run('variables', [payload])
        got = res[0][1].get('variables') if res and res[0][0] == 'ok' else res
        if got != want:
            out.violation(f"{c['kernel']}:{c['what']}", f'{c["what"]}: member of type {expr}, skip_serializing_none={mdl.get("skip_serializing_none")}: {json.dumps(payload)} serializes as {json.dumps(got)}, expected {json.dumps(want)}',
                          dict(kind='solver', model=mdl, schema=schema, query=query, payload=payload))
        else:
            out.inconc(f'solver counterexample {c["what"]} {mdl} did not reproduce natively')
    # the Option / Vec nesting of a variable decides which assignments are expressible at all: the nesting kernel runs here
    # too, its counterexamples replayed as variable assignments with null at every nullable level
    for c in sorted(K.k_decorate_type(R, 4 if tier == 'quick' else 6), key=lambda c: len(c['qualifiers'])):
        ql = c['qualifiers']
        if any(a == 'R' and b == 'R' for a, b in zip(ql, ql[1:])):
            continue
        expr = K.graphql_type_expr(ql, 'Int')
        schema, query = f'type Query {{ x(a: {expr}): Int }}\n', f'query Q($v: {expr}) {{ x(a: $v) }}\n'
        err = C.build(schema, query, 'Q', 'q')
        replayed += 1
        if err:
            out.inconc(f'nesting counterexample {expr} could not be replayed: ' + err[-200:].replace('\n', ' | '))
            break

        def values(qs):
            # every assignment that puts null at exactly one nullable level (or nowhere), lists of length 1
            if not qs:
                return [7, None]
            if qs[0] == 'R':
                return [v for v in values(qs[1:]) if v is not None] if len(qs) > 1 else [7]
            inner = values(qs[1:]) if len(qs) > 1 else [7, None]
            return [[v] for v in inner] + [None]
        vals = values(ql) if ql else [7, None]
        if ql and ql[0] == 'L':
            pass
        payloads = [{'v': v} for v in vals]
        res = C.run('variables', payloads)
        bad = [(p_, r_) for p_, r_ in zip(payloads, res) if r_[0] != 'ok' or r_[1].get('variables') != p_]
        if bad:
            p_, r_ = bad[0]
            out.violation('nesting:variable', f'variable `$v: {expr}`: the valid assignment {json.dumps(p_)} ' +
                          (f'is not expressible: {r_[1]}' if r_[0] != 'ok' else f'serializes as {json.dumps(r_[1].get("variables"))}'),
                          dict(kind='nesting', qualifiers=ql, schema=schema, query=query, payload=p_))
        else:
            out.inconc(f'nesting counterexample for {expr} did not reproduce as a variable assignment')
        break
    for w in R.inconclusive:
        out.inconc(w)
    ev = R.evidence()
    ev.update(paths=R.paths, obligations=R.obligations, discharged=R.discharged, replayed=replayed, samples=R.samples[:3])
    return ev


def build(c):
    c.derive_modules(lambda e: e['variants'])
    c.add_variables_harnesses(PROP, lambda e: e['variants'] if c.tier == 'thorough' else [v for v in e['variants'] if v in ('base', 'skip')])


def main():
    return krun.standard_check(
        PROP, build, ok_real=lambda v: v == 'Ok',
        describe='a valid variables assignment is not expressible or does not serialize back exactly',
        level_text='bounded model checking of generated Serialize/Deserialize impls for Variables and input types',
        assumptions=['SV / CheckSer harness models mirror serde_json::Value (validated natively on every run)',
                     'the Variables value is obtained by deserializing the assignment (variables_derives adds Deserialize): reaches every value of the generated types except enum Other(..)',
                     'shapes: list lengths 0..2 (recursive inputs: 0..1), input recursion depth 2, strings concrete (quick)',
                     'operations: the catalogue under kgen/catalogue'],
        jobs=6, pre=attribute_part)


def replay(path):
    def other(p):
        import consumer
        C = consumer.Consumer(vc.scratch(PROP + 'r'))
        if p.get('kind') == 'nesting':
            err = C.build(p['schema'], p['query'], 'Q', 'q')
            res = C.run('variables', [p['payload']]) if not err else [('err', err[-200:])]
            print(json.dumps(res)[:400])
            return 0 if (res and res[0][0] == 'ok' and res[0][1].get('variables') == p['payload']) else 1
        if p.get('kind') == 'wire-name':
            import C11
            ok, desc, _, _ = C11.confirm(C, p['site'], p['name'])
            print(desc)
            return 0 if ok else 1
        attrs = 'skip_serializing_none, ' if p['model'].get('skip_serializing_none') else ''
        err = C.build(p['schema'], p['query'], 'Q', 'q', attrs=attrs)
        if err:
            print('does not compile: ' + err[-300:])
            return 1
        res = C.run('variables', [p['payload']]) if 'payload' in p else []
        print(json.dumps(res)[:600])
        return 1
    return krun.replay_generic(PROP, build, lambda v: v == 'Ok', path, other=other)
