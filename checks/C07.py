"""C07 - SDL and introspection JSON of the same schema generate identical code (engine M + native differential).

Engine M: `schema::resolve_field_type` (SDL type AST) and `json_conversion::from_json_type_inner` (introspection
TypeRef chain) are executed symbolically on every type expression up to a wrapper-depth bound against the same
reference, hence agree with each other (list / non-null nesting survives either path).
Native differential (concrete, every run): every catalogue schema (and the repository's own test schemas that the
oracle parser reads) is rendered as introspection JSON - bare, data-wrapped, with the type list reversed and with the
built-in scalars and a `__Schema` introspection type present - and all operations are generated from both forms;
the generated modules must consist of the same items.  Whole-schema ingestion (`convert`) is dominated by B-tree
and string traffic and is not solver-decided.
"""
import glob
import json
import os
import time

import vp_common as vc
import native
import introspect
import gql
import mcheck
import kernels as K

PROP = 'C07'


def items_of(text):
    """canonical multiset of generated items: module name -> sorted item strings"""
    out = {}
    toks = native.tokenize(text)
    items = native.parse_items(toks)
    for it in items:
        if it.kind == 'mod':
            inner = []
            for x in it.items:
                inner.append(' '.join([x.kind, x.name] + sorted(native.type_str(f[1]) + '|' + ','.join(native.attr_strs(f[2])) + '|' + f[0] for f in x.fields) + [''.join(x.rhs)] + native.attr_strs(x.attrs)))
            out[it.name] = sorted(inner)
        else:
            out.setdefault('<top>', []).append(f'{it.kind} {it.name}')
    return out


def corpus():
    """(label, schema SDL, query text)"""
    out = []
    cat = os.path.join(vc.VERIF, 'kgen', 'catalogue')
    for d in sorted(os.listdir(cat)):
        p = os.path.join(cat, d)
        if os.path.isdir(p):
            out.append((f'catalogue/{d}', open(os.path.join(p, 'schema.graphql')).read(), open(os.path.join(p, 'query.graphql')).read()))
    tests = os.path.join(vc.REPO, 'graphql_client', 'tests')
    for name, sf, qf in (('unions', 'union_schema.graphql', 'union_query.graphql'), ('interfaces', 'interface_schema.graphql', 'interface_query.graphql'),
                         ('deprecation', 'schema.graphql', 'query.graphql'), ('one_of_input', 'schema.graphql', 'query.graphql'),
                         ('input_object_variables', 'input_object_variables_schema.graphql', 'input_object_variables_query.graphql'),
                         ('fragments', 'schema.graphql', 'query.graphql'), ('subscription', 'subscription_schema.graphql', 'subscription_query.graphql')):
        try:
            out.append((f'repo-tests/{name}', open(os.path.join(tests, name, sf)).read(), open(os.path.join(tests, name, qf)).read()))
        except OSError:
            pass
    return out


SYNTH = [
    # several `extend type` blocks for one type, an extension that adds an interface
    ('synth/extend-type', '''schema { query: Query }
type Query { a: Int }
interface Named { name: String }
type User { id: Int }
type Team { id: Int }
extend type Query { users: [User] }
extend type Query { named: Named }
extend type User implements Named { name: String }
extend type User { email: String }
extend type Team implements Named { name: String }
''', 'query Q { a users { id name email } named { __typename name ... on User { email } ... on Team { id } } }\n'),
    # a body-less enum declared before the enum that is used (type indices must stay aligned)
    ('synth/bodyless-enum', 'enum Stub\nenum Color { RED GREEN }\nenum Size { S M }\ntype Query { c: Color s(size: Size): Size }\n', 'query Q($z: Size) { c s(size: $z) }\n'),
    # built-in scalars spelled out by the SDL printer
    ('synth/declared-builtins', 'scalar ID\nscalar Int\nscalar String\nscalar Date\ntype Query { id: ID! n: Int s: String d: Date f: Float }\n', 'query Q { id n s d f }\n'),
    # input objects with defaults, enums and custom scalars side by side
    ('synth/inputs', '''scalar Date
enum Color { RED GREEN }
input Filter { color: Color = RED since: Date tags: [String!] nested: Filter }
type Query { find(f: Filter, c: Color!): [Color!] }
''', 'query Q($f: Filter, $c: Color!) { find(f: $f, c: $c) }\n'),
]


def root_matrix():
    """(label, SDL, query): every arrangement of an explicit `schema {}` block (absent / declaring any subset of the three
    roots incl. query) x conventional or custom root type names x each operation kind.  Small enough to enumerate."""
    out = []
    for qn in ('Query', 'RootQ'):
        for mn in ('Mutation', 'RootM'):
            for sn in ('Subscription', 'RootS'):
                types = f'type {qn} {{ a: Int }}\ntype {mn} {{ a: Int }}\ntype {sn} {{ a: Int }}\n'
                for block in (None, ('query',), ('query', 'mutation'), ('query', 'subscription'), ('query', 'mutation', 'subscription')):
                    names = dict(query=qn, mutation=mn, subscription=sn)
                    head = '' if block is None else 'schema { ' + ' '.join(f'{k}: {names[k]}' for k in block) + ' }\n'
                    for kind in ('query', 'mutation', 'subscription'):
                        label = f"roots/{qn}-{mn}-{sn}/{'no-block' if block is None else '+'.join(block)}/{kind}"
                        out.append((label, head + types, f'{kind} Op {{ a }}\n'))
    return out


def main():
    t0 = time.time()
    tier = vc.tier()
    out = vc.Outcome(PROP)
    sc = vc.scratch(PROP)
    rt = native.ReplayTool(sc)
    rt.start_build()
    R = mcheck.MRun(vc.REPO, sc, 'codegen')
    depth = 4 if tier == 'quick' else 6
    cands = K.k_resolve_field_type(R, depth) + K.k_from_json_type(R, depth)
    ncmp = 0
    samples = []
    matrix = root_matrix()
    if tier == 'quick':
        matrix = [x for i, x in enumerate(matrix) if i % 2 == vc.seed() % 2 or 'Mutation' in x[0]]
    for label, sdl, query in corpus() + SYNTH + matrix:
        try:
            schema = gql.parse_schema(sdl)
            gql.parse_query(query)
        except SyntaxError as e:
            samples.append(dict(corpus=label, skipped=f'oracle parser: {e}'))
            continue
        base = rt.gen(sdl, query, {})
        if base['status'] != 'ok':
            # both forms must agree on failure as well
            r = rt.gen(introspect.to_introspection(schema), query, {}, schema_ext='json')
            ncmp += 1
            if r['status'] != base['status']:
                out.violation('roots:status-differs' if label.startswith('roots/') else f'{label}:status-differs',
                              f'{label}: the SDL form ends with {base["status"]} ({base["text"][:120]!r}) but the JSON form with {r["status"]} for `{query.strip()[:120]}`',
                              dict(kind='native', corpus=label, rendering='json', sdl=sdl, query=query))
            elif not label.startswith('roots/'):
                samples.append(dict(corpus=label, both_forms_fail=base['text'][:120]))
            continue
        want = items_of(base['text'])
        renderings = {
            'json': introspect.to_introspection(schema),
            'json-data-wrapped': introspect.to_introspection(schema, wrap_data=True),
            'json-reversed-type-order': introspect.to_introspection(schema, order=list(reversed(schema.order))),
        }
        if label.startswith('roots/'):
            renderings = {'json': renderings['json']}
        if tier == 'thorough' and not label.startswith('roots/'):
            renderings['json-without-builtin-scalars'] = introspect.to_introspection(schema, include_builtin=False)
        for rname, js in renderings.items():
            r = rt.gen(js, query, {}, schema_ext='json')
            ncmp += 1
            if r['status'] != 'ok':
                out.violation('roots:status-differs' if label.startswith('roots/') else f'{label}:{rname}:generation', f'{label}: the {rname} form fails where the SDL form generates: {r["status"]} {r["text"][:200]}',
                              dict(kind='native', corpus=label, rendering=rname, sdl=sdl, query=query))
                continue
            got = items_of(r['text'])
            if got != want:
                diff = []
                for mod in sorted(set(want) | set(got)):
                    a, b = set(want.get(mod, [])), set(got.get(mod, []))
                    for x in sorted(a - b)[:2]:
                        diff.append(f'{mod}: only from SDL: {x[:160]}')
                    for x in sorted(b - a)[:2]:
                        diff.append(f'{mod}: only from JSON: {x[:160]}')
                role = 'oneOf' if any('enum' in d and 'struct' in ' '.join(diff) for d in diff) and '@oneOf' in sdl else 'items'
                out.violation(f'{role}:{rname}' if role == 'oneOf' else f'{label}:{rname}', f'{label}: generated items differ between SDL and {rname}: ' + ' ;; '.join(diff[:4]),
                              dict(kind='native', corpus=label, rendering=rname, sdl=sdl, query=query, diff=diff[:10]))
        if not label.startswith('roots/') or len(samples) < 14:
            samples.append(dict(corpus=label, renderings=list(renderings), modules=sorted(want)))
    # solver counterexamples: replay like C13 (response field type through both forms)
    import C13
    replayed = 0
    seen = set()
    for c in sorted(cands, key=lambda c: len(c['qualifiers'])):
        if c['kernel'] in seen or not C13.valid(c['qualifiers']):
            continue
        a, b = C13.gen_types(rt, c['qualifiers'], 'sdl'), C13.gen_types(rt, c['qualifiers'], 'json')
        replayed += 1
        seen.add(c['kernel'])
        if a != b:
            out.violation(f"type-ref:{''.join(c['qualifiers'])}", f"{K.graphql_type_expr(c['qualifiers'])}: SDL gives {a}, JSON gives {b}", dict(kind='solver', model=c))
        else:
            out.inconc(f"type-reference counterexample {c} did not reproduce natively")
    for w in R.inconclusive:
        out.inconc(w)
    cross = R.cross_check(limit=4 if tier == 'quick' else 20)
    coverage = dict(
        states=R.paths, transitions=R.vm.queries, traces_validated_against_impl=ncmp + replayed, samples=R.samples[:4] + samples[:10],
        obligations=R.obligations, discharged=R.discharged,
        bounds=dict(type_expression_max_wrappers=depth, corpus=len(samples)),
        outside_bounds='whole-schema ingestion is compared natively on the corpus only; `extend type`, explicit `schema {}` vs default root names are enumerated natively (root matrix: block arrangement x conventional / custom names x operation kind), not solver-decided',
        engine=R.evidence(), cross_check=cross, exhaustive=False)
    vc.write_evidence(PROP, 'model_checking', coverage,
                      ['lib/introspect.py renders the JSON a spec-compliant server returns for the schema (incl. isOneOf)', 'item order inside a generated module is not semantic',
                       'library summaries listed under engine.summaries_used'], time.time() - t0, violations=len(out.violations))
    return out.finish()


def replay(path):
    p = json.load(open(path))
    print(json.dumps({k: p[k] for k in p if k in ('corpus', 'rendering', 'diff')})[:1500])
    return 1
