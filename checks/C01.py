"""C01 - every conforming response deserializes losslessly (engine K-gen, restricted scope).

For every catalogue operation whose response type is built from plain positions
(objects, aliases, lists, nullable / non-null scalars, enums, custom scalars) CBMC
decides, for every payload the oracle (lib/gql.py reading of the schema) calls
conforming within the shape bound, that the generated ResponseData accepts it and
re-serializes to the same JSON up to the tolerated differences.
Positions that go through serde's `Content` buffer (interfaces / unions, fragment
spreads, ID) are outside: see DESIGN.md.
"""
import krun

PROP = 'C01'


def build(c):
    c.derive_modules(lambda e: [v for v in e['variants'] if v in ('base', 'rust')])
    c.add_response_harnesses({PROP: 'v != Verdict::RejectedValid && v != Verdict::Lossy'}, lambda e: [v for v in e['variants'] if v in ('base', 'rust')] if c.tier == 'thorough' else ['base'])


def main():
    return krun.standard_check(
        PROP, build, ok_real=lambda v: v not in ('RejectedValid', 'Lossy'),
        describe='a conforming payload is rejected or not preserved',
        level_text='bounded model checking of generated Deserialize/Serialize impls',
        assumptions=['SV / CheckSer harness models mirror serde_json::Value (validated natively on every run)',
                     'payload shapes: list lengths 0..2, one optional unknown member per object, symbolic i64 / f64 / bool, strings concrete (quick) or <= 1 symbolic byte (thorough)',
                     'operations: the catalogue under kgen/catalogue; interface / union / fragment-spread / ID positions are excluded (serde Content)'],
        jobs=6)
