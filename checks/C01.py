"""C01 - every conforming response deserializes losslessly (engine K-gen, restricted scope).

For every catalogue operation whose response type is built from plain positions
(objects, aliases, lists, nullable / non-null scalars, enums, custom scalars) CBMC
decides, for every payload the oracle (lib/gql.py reading of the schema) calls
conforming within the shape bound, that the generated ResponseData accepts it and
re-serializes to the same JSON up to the tolerated differences.
Positions that go through serde's `Content` buffer (interfaces / unions, fragment
spreads, ID) are outside: see DESIGN.md.
"""
import json
import time

import vp_common as vc
import krun

PROP = 'C01'


def build(c):
    c.derive_modules(lambda e: [v for v in e['variants'] if v in ('base', 'rust')])
    c.add_response_harnesses({PROP: 'v != Verdict::RejectedValid && v != Verdict::Lossy'}, lambda e: [v for v in e['variants'] if v in ('base', 'rust')] if c.tier == 'thorough' else ['base'])


def abstract_part(out):
    """engine M on interface / union selections (the positions K-gen cannot execute): every selection that targets a possible
    object type ends up in that type's variant; replayed by a consumer-crate round trip"""
    import mcheck
    import consumer
    import abstract_common as AC
    sc = vc.scratch(PROP + 'm')
    R = mcheck.MRun(vc.REPO, sc, 'codegen', max_depth=80, max_paths=80000)
    cands = [c for c in AC.run_kernel(R, vc.tier(), objects=True) if c['prop'] == 'C01']
    C = consumer.Consumer(sc)
    seen = set()
    replayed = 0
    for c in sorted(cands, key=lambda c: len(json.dumps(c['model']))):
        role = c['what'].split(':', 1)[1].split('-', 1)[1] if ':' in c['what'] else c['what']
        if c['kernel'] == 'object_selection':
            role = 'object-' + role
        if role in seen or len(seen) >= 4:
            continue
        seen.add(role)
        ok, desc, rp = AC.confirm_object(C, c['model']) if c['kernel'] == 'object_selection' else AC.confirm(C, c['model'])
        replayed += 1
        if ok is False:
            out.violation(('' if c['kernel'] == 'object_selection' else 'abstract:') + role, desc, dict(kind='solver', claim=c['what'], **rp))
        elif ok is None:
            out.inconc(f'abstract selection counterexample could not be replayed: {desc}')
        else:
            out.inconc(f'abstract selection counterexample {c["what"]} {c["model"]} did not reproduce natively')
    # ID positions run through serde's Content buffer (untagged helper): neither engine can execute them, so the "integer or
    # string ID" clause of the property is only sampled natively here (same matrix as C16: nesting, flatten / variant
    # positions, integer boundary values)
    import C16
    id_samples = []
    for ql in ([], ['R'], ['R', 'L', 'R']):
        ok, desc = C16.confirm(C, ql)
        replayed += 1
        id_samples.append(dict(type_expression=ql, ok=ok))
        if not ok:
            out.violation('native:id-payload', desc, dict(kind='native-id', qualifiers=ql))
            break
    else:
        ok, desc = C16.confirm_positions(C)
        replayed += 1
        if not ok:
            out.violation('native:id-payload', desc, dict(kind='native-id', positions=True))
    for w in R.inconclusive:
        out.inconc(w)
    ev = R.evidence()
    ev.update(paths=R.paths, obligations=R.obligations, discharged=R.discharged, replayed=replayed, samples=R.samples[:3], native_id_samples=id_samples)
    return ev


def main():
    extra = {}
    return krun.standard_check(
        PROP, build, ok_real=lambda v: v not in ('RejectedValid', 'Lossy'),
        describe='a conforming payload is rejected or not preserved',
        level_text='bounded model checking of generated Deserialize/Serialize impls',
        assumptions=['SV / CheckSer harness models mirror serde_json::Value (validated natively on every run)',
                     'payload shapes: list lengths 0..2, one optional unknown member per object, symbolic i64 / f64 / bool, strings concrete (quick) or <= 1 symbolic byte (thorough)',
                     'operations: the catalogue under kgen/catalogue; interface / union / fragment-spread / ID positions are excluded (serde Content)'],
        jobs=6, pre=abstract_part)


def replay(path):
    def other(p):
        import consumer
        import abstract_common as AC
        C = consumer.Consumer(vc.scratch(PROP + 'r'))
        if p.get('kind') == 'native-id':
            import C16
            ok, desc = C16.confirm_positions(C) if p.get('positions') else C16.confirm(C, p['qualifiers'])
            print(desc)
            return 0 if ok else 1
        ok, desc, _ = AC.confirm_object(C, p['model']) if p['model'].get('parent') == 'object' else AC.confirm(C, p['model'])
        print(desc)
        return 1 if ok is False else 0
    return krun.replay_generic(PROP, build, lambda v: v not in ('RejectedValid', 'Lossy'), path, other=other)
