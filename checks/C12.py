"""C12 - recursive input types and fragments get finite-size Rust types (engine M).

`input_is_recursive_without_indirection` is executed symbolically on every directed
multigraph of input types within the bound (several fields per ordered pair, each
nullable / non-null / list) and compared with the reference "the type lies on a cycle
of non-list fields"; `fragment_is_recursive` likewise against "the fragment's own
selection tree spreads itself".  The use sites (Box iff the predicate) are covered by
the input-field kernels of C04/C11.  Counterexamples are compiled in a real consumer
crate: an infinite-size type is rustc error E0072.
"""
import json
import re
import time

import vp_common as vc
import consumer
import mcheck
import kernels as K
import synth

PROP = 'C12'


def confirm_inputs(C, c):
    schema, query = synth.input_graph_texts(c['graph'], c['target'])
    err = C.build(schema, query, 'Q', 'q')
    if err and 'E0072' in err:
        m = re.search(r'error\[E0072\][^\n]*', err)
        return False, f'generated input types have infinite size: {m.group(0)}', schema, query
    if err:
        return None, 'consumer crate failed to compile for another reason: ' + err[-300:].replace('\n', ' | '), schema, query
    return True, 'compiles', schema, query


def boxed_fields(rt_text, name):
    import native
    mod = native.find_mod(native.parse_generated(rt_text))
    it = native.find_item(mod.items, name, 'struct')
    return {f[0]: native.type_str(f[1]) for f in it.fields} if it else {}


def main():
    t0 = time.time()
    tier = vc.tier()
    out = vc.Outcome(PROP)
    sc = vc.scratch(PROP)
    R = mcheck.MRun(vc.REPO, sc, 'codegen', max_depth=80, max_paths=80000)
    cands = []
    graphs = [(2, 2, 1), (3, 2, 1)] if tier == 'quick' else [(2, 2, 2), (3, 2, 1), (2, 3, 1), (3, 3, 1), (4, 2, 1)]
    for N, Kf, ql in graphs:
        cands += K.k_input_recursion(R, N, Kf, ql)
    frs = [(2, 2)] if tier == 'quick' else [(2, 2), (3, 2), (2, 3)]
    for F, S in frs:
        cands += K.k_fragment_is_recursive(R, F, S)
    cands = [c for c in cands if c['prop'] == 'C12']
    C = consumer.Consumer(sc)
    replayed = 0
    # a missing Box on one type of a cycle can be compensated by a Box elsewhere on the cycle: replay several counterexamples,
    # graphs on which the predicate is wrong for several types first
    from collections import Counter
    under = [c for c in cands if c['kernel'] == 'input_recursion' and c['got'] == 'False']
    freq = Counter(json.dumps(c['graph']) for c in under)
    under.sort(key=lambda c: (-freq[json.dumps(c['graph'])], len(json.dumps(c['graph']))))
    tried, hit = set(), False
    for c in under:
        g = json.dumps(c['graph'])
        if g in tried or len(tried) >= (5 if tier == 'quick' else 12):
            continue
        tried.add(g)
        ok, desc, schema, query = confirm_inputs(C, c)
        replayed += 1
        if ok is False:
            out.violation('input-cycle-without-box', desc + f' for {c["graph"]}', dict(kind='solver', model=c, schema=schema, query=query))
            hit = True
            break
    if under and not hit:
        out.inconc(f'the recursion predicate differs from "lies on a list-free cycle" on {len(freq)} graphs, but the {len(tried)} replayed ones still compile '
                   f'(another Box on the cycle compensates); first: {under[0]["graph"]}')
    for c in [c for c in cands if c['kernel'] == 'fragment_is_recursive' and c['got'] == 'False'][:3]:
        schema, query = synth.fragment_texts(c['fragments'], use=int(c['target'][1:]))
        err = C.build(schema, query, 'Q', 'q')
        replayed += 1
        if err and 'E0072' in err:
            out.violation('recursive-fragment-without-box', 'generated fragment types have infinite size (E0072)', dict(kind='solver', model=c, schema=schema, query=query))
            break
    else:
        if any(c['kernel'] == 'fragment_is_recursive' and c['got'] == 'False' for c in cands):
            out.inconc('fragment recursion counterexamples did not reproduce natively')
    for w in R.inconclusive:
        out.inconc(w)
    cross = R.cross_check(limit=4 if tier == 'quick' else 20)
    coverage = dict(
        states=R.paths, transitions=R.vm.queries, traces_validated_against_impl=replayed, samples=R.samples[:10],
        obligations=R.obligations, discharged=R.discharged,
        bounds=dict(input_graphs=graphs, fragment_graphs=frs, note='(types, fields per type, qualifiers per field) / (fragments, selections per fragment, one nested level)'),
        outside_bounds='graphs with more types / fields; the E0072 judgement itself is rustc\'s (used only to confirm counterexamples)',
        engine=R.evidence(), cross_check=cross, exhaustive=False)
    vc.write_evidence(PROP, 'model_checking', coverage,
                      ['BTreeSet<&str> modelled as a finite set with string equality', 'a type needs indirection iff it lies on a cycle of non-list fields (reference model)',
                       'library summaries listed under engine.summaries_used'], time.time() - t0, violations=len(out.violations))
    return out.finish()


def replay(path):
    p = json.load(open(path))
    sc = vc.scratch(PROP + 'r')
    err = consumer.Consumer(sc).build(p['schema'], p['query'], 'Q', 'q')
    print((err or 'compiles')[-800:])
    return 1 if err and 'E0072' in err else 0
