"""C12 - recursive input types and fragments get finite-size Rust types (engine M).

`input_is_recursive_without_indirection` is executed symbolically on every directed
multigraph of input types within the bound (several fields per ordered pair, each
nullable / non-null / list) and compared with the reference "the type lies on a cycle
of non-list fields"; `fragment_is_recursive` likewise against "the fragment's own
selection tree spreads itself".  The use sites (Box iff the predicate) are covered by
the input-field kernels of C04/C11.  Counterexamples are compiled in a real consumer
crate: an infinite-size type is rustc error E0072.
"""
import json
import re
import time

import vp_common as vc
import consumer
import mcheck
import kernels as K
import synth

PROP = 'C12'


def confirm_inputs(C, c):
    schema, query = synth.input_graph_texts(c['graph'], c['target'])
    err = C.build(schema, query, 'Q', 'q')
    if err and 'E0072' in err:
        m = re.search(r'error\[E0072\][^\n]*', err)
        return False, f'generated input types have infinite size: {m.group(0)}', schema, query
    if err:
        return None, 'consumer crate failed to compile for another reason: ' + err[-300:].replace('\n', ' | '), schema, query
    return True, 'compiles', schema, query


HISTORY_PAIRS = [
    # (earlier schema in the same process, later schema): the same input type name, recursive only in the later one
    ('input X { y: Int }\ntype Query { f(a: X): Int }\n', 'input X { me: X y: Int }\ntype Query { f(a: X): Int }\n'),
    ('input X { l: [X!] }\ninput Y { x: X }\ntype Query { f(a: X, b: Y): Int }\n', 'input X { y: Y }\ninput Y { x: X! }\ntype Query { f(a: X, b: Y): Int }\n'),
]
HISTORY_QUERY = 'query Q($a: X) { f(a: $a) }\n'


def history_independence(rt):
    """native, sampled: the Box decision for a schema must not depend on schemas generated earlier in the same process
    (a derive macro expands every `#[derive(GraphQLQuery)]` of a crate in one process).  Returns [(key, description, payload)]"""
    bad = []
    for k, (first, second) in enumerate(HISTORY_PAIRS):
        alone = rt.gen_seq([(second, HISTORY_QUERY)])[0]
        after = rt.gen_seq([(first, HISTORY_QUERY), (second, HISTORY_QUERY)])[1]
        if alone[0] != 'ok' or after[0] != 'ok':
            if alone[0] != after[0]:
                bad.append((f'history:{k}', f'generation of schema B {after[0]} after schema A but {alone[0]} alone', dict(kind='history', first=first, second=second)))
            continue
        n_alone, n_after = alone[1].count('Box <'), after[1].count('Box <')
        if n_after < n_alone:
            bad.append(('history:box-lost-after-other-schema', f'schema `{second.splitlines()[0]} ...` gets {n_alone} boxed members when generated alone but {n_after} when a schema with an '
                        f'equally named, non-recursive input type (`{first.splitlines()[0]}`) was generated earlier in the same process: the cyclic type has infinite size',
                        dict(kind='history', first=first, second=second)))
    return bad


def boxed_fields(rt_text, name):
    import native
    mod = native.find_mod(native.parse_generated(rt_text))
    it = native.find_item(mod.items, name, 'struct')
    return {f[0]: native.type_str(f[1]) for f in it.fields} if it else {}


def main():
    t0 = time.time()
    tier = vc.tier()
    out = vc.Outcome(PROP)
    sc = vc.scratch(PROP)
    R = mcheck.MRun(vc.REPO, sc, 'codegen', max_depth=80, max_paths=80000)
    cands = []
    graphs = [(2, 2, 1), (3, 2, 1)] if tier == 'quick' else [(2, 2, 2), (3, 2, 1), (2, 3, 1)]     # (3,3,1) and (4,2,1) exceed 80 000 paths (measured)
    for N, Kf, ql in graphs:
        cands += K.k_input_recursion(R, N, Kf, ql)
    frs = [(2, 2)] if tier == 'quick' else [(2, 2), (2, 3)]      # (3,2): the cycle query over 3 fragments does not finish (solver unknown after 120 s)
    for F, S in frs:
        cands += K.k_fragment_is_recursive(R, F, S)
    # Box at the use sites inside interface / union variants: F1 recursive, every embedding of it boxed and nothing else
    cands += K.k_abstract_selection(R, 3, recursive_f1=True)
    cands = [c for c in cands if c['prop'] == 'C12']
    C = consumer.Consumer(sc)
    replayed = 0
    # a missing Box on one type of a cycle can be compensated by a Box elsewhere on the cycle: replay several counterexamples,
    # graphs on which the predicate is wrong for several types first
    from collections import Counter
    under = [c for c in cands if c['kernel'] == 'input_recursion' and c['got'] == 'False']
    freq = Counter(json.dumps(c['graph']) for c in under)
    under.sort(key=lambda c: (-freq[json.dumps(c['graph'])], len(json.dumps(c['graph']))))
    tried, hit = set(), False
    for c in under:
        g = json.dumps(c['graph'])
        if g in tried or len(tried) >= (5 if tier == 'quick' else 12):
            continue
        tried.add(g)
        ok, desc, schema, query = confirm_inputs(C, c)
        replayed += 1
        if ok is False:
            out.violation('input-cycle-without-box', desc + f' for {c["graph"]}', dict(kind='solver', model=c, schema=schema, query=query))
            hit = True
            break
    if under and not hit:
        out.inconc(f'the recursion predicate differs from "lies on a list-free cycle" on {len(freq)} graphs, but the {len(tried)} replayed ones still compile '
                   f'(another Box on the cycle compensates); first: {under[0]["graph"]}')
    for c in [c for c in cands if c['kernel'] == 'fragment_is_recursive' and c['got'] == 'False'][:3]:
        schema, query = synth.fragment_texts(c['fragments'], use=int(c['target'][1:]))
        err = C.build(schema, query, 'Q', 'q')
        replayed += 1
        if err and 'E0072' in err:
            out.violation('recursive-fragment-without-box', 'generated fragment types have infinite size (E0072)', dict(kind='solver', model=c, schema=schema, query=query))
            break
    else:
        if any(c['kernel'] == 'fragment_is_recursive' and c['got'] == 'False' for c in cands):
            out.inconc('fragment recursion counterexamples did not reproduce natively')
    import native
    rt = native.ReplayTool(sc)
    hist = history_independence(rt)
    replayed += 2 * len(HISTORY_PAIRS)
    for key, desc, payload in hist:
        out.violation(key, desc, payload)
    import abstract_common as AC
    tried_abs, hit_abs = 0, False
    abs_c = [c for c in cands if c['kernel'] == 'abstract_selection']
    # a missing Box on F1 makes the types infinite; a superfluous Box elsewhere only changes the API: replay the former first
    abs_c.sort(key=lambda c: ('-F1-' not in c['what'], c['model']['F1_on'] == 'PARENT', len(json.dumps(c['model']))))
    seen_models = set()
    for c in abs_c:
        key = json.dumps(c['model'], sort_keys=True)
        if key in seen_models:
            continue
        seen_models.add(key)
        if tried_abs >= 4:
            break
        texts = synth.abstract_recursive_texts(c['model'])
        if texts is None:
            continue
        tried_abs += 1
        schema, query = texts
        err = C.build(schema, query, 'Q', 'q')
        replayed += 1
        if err and ('E0072' in err or 'E0391' in err):
            out.violation('variant-embeds-recursive-fragment-without-box', f'`{query.splitlines()[0]}` with F1 recursive: generated types have infinite size (E0072)',
                          dict(kind='solver', model=c, schema=schema, query=query))
            hit_abs = True
            break
    if abs_c and not hit_abs:
        out.inconc(f'{len(abs_c)} variant Box counterexamples ({abs_c[0]["what"]}); the {tried_abs} replayed ones compile (a superfluous Box changes the API, not finiteness)')
    for w in R.inconclusive:
        out.inconc(w)
    cross = R.cross_check(limit=4 if tier == 'quick' else 20)
    coverage = dict(
        states=R.paths, transitions=R.vm.queries, traces_validated_against_impl=replayed, samples=R.samples[:10],
        obligations=R.obligations, discharged=R.discharged,
        bounds=dict(input_graphs=graphs, fragment_graphs=frs, note='(types, fields per type, qualifiers per field) / (fragments, selections per fragment, one nested level)'),
        outside_bounds='graphs with more types / fields; dependence on process history is only sampled natively (two fixed schema pairs through one process); the E0072 judgement itself is rustc\'s (used only to confirm counterexamples)',
        engine=R.evidence(), cross_check=cross, exhaustive=False)
    vc.write_evidence(PROP, 'model_checking', coverage,
                      ['BTreeSet<&str> modelled as a finite set with string equality', 'a type needs indirection iff it lies on a cycle of non-list fields (reference model)',
                       'library summaries listed under engine.summaries_used'], time.time() - t0, violations=len(out.violations))
    return out.finish()


def replay(path):
    p = json.load(open(path))
    sc = vc.scratch(PROP + 'r')
    if p.get('kind') == 'history':
        import native
        bad = history_independence(native.ReplayTool(sc))
        for b in bad:
            print(b[1])
        return 1 if bad else 0
    err = consumer.Consumer(sc).build(p['schema'], p['query'], 'Q', 'q')
    print((err or 'compiles')[-800:])
    return 1 if err and 'E0072' in err else 0
