"""C15 - Response / Error envelope accepts and preserves every spec-shaped body (engine K-gen, restricted).

graphql_client::Response<T> (T = a plain generated ResponseData) is deserialized from a symbolic body:
`data` absent / null / a payload (conforming or with one symbolic corruption), `errors` absent / null / a list of
0..2 entries whose `locations` are absent / null / 0..2 entries with symbolic i32 line / column, unknown members at
every level, `extensions` absent or null.  CBMC decides that every conforming body is accepted and re-serializes to
the same JSON (up to null / absent).  Error::path entries (untagged enum) and non-null `extensions`
(HashMap<String, Value>) run through serde Content / hashing and are outside; Display is checked natively only.
"""
import json

import vp_common as vc
import krun

PROP = 'C15'


def build(c):
    c.derive_modules(lambda e: ['base'])
    c.add_envelope_harnesses(PROP)


def main():
    return krun.standard_check(
        PROP, build, ok_real=lambda v: v == 'Ok',
        describe='a spec-shaped response body is rejected or not preserved',
        level_text='bounded model checking of the serde derives on Response / Error / Location',
        assumptions=['SV / CheckSer harness models mirror serde_json::Value (validated natively on every run)',
                     'path entries and non-null extensions are excluded (serde Content / HashMap)',
                     'Display of Error is not solver-decided'],
        jobs=4, only=['plain1'])
