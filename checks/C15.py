"""C15 - Response / Error envelope accepts and preserves every spec-shaped body; Error's Display.

Two parts:

* engine M (solver-decided): `<graphql_client::Error as Display>::fmt` is executed symbolically from the MIR of the
  working tree's graphql_client crate for every path of 0..N entries (each a Key with an unconstrained string or an
  Index with an unconstrained i32), path absent, location absent / present (unconstrained i32 line / column) and an
  unconstrained message; z3 decides that the formatter never panics and that its output equals
  `join("/", path) | "<query>"` + `:line:column: message`.  The std formatting machinery is summarised (template decoded
  from the compiled `format_args!` bytes, decimal rendering of an integer = an uninterpreted non-empty string not ending
  in `/`).
* native (sampled, NOT solver-decided): bodies enumerated from the response grammar are pushed through
  `serde_json::from_str::<Response<Value>>`, re-serialized and read back.  The derives on Response / Error run through
  serde's private Content buffer (untagged PathFragment), HashMap<String, Value> and serde_json's parser; the K-gen
  harness for the Content-free sub-grammar did not finish within 600 s per harness (measured), so this half is outside
  the solver's reach here and the evidence says so.
"""
import itertools
import json
import random
import time

import vp_common as vc
import native
import mcheck
import kernels as K

PROP = 'C15'


def want_display(err):
    path = err.get('path')
    p = '<query>' if path is None else '/'.join(str(x) for x in path)
    locs = err.get('locations') or []
    line, col = (locs[0]['line'], locs[0]['column']) if locs else (0, 0)
    return f'{p}:{line}:{col}: {err["message"]}'


def error_json(path, message, location):
    e = {'message': message}
    if path is not None:
        e['path'] = path
    if location is not None:
        locs = location if (location and isinstance(location[0], list)) else ([location] if location else [])
        e['locations'] = [{'line': l[0], 'column': l[1]} for l in locs]
    return e


def confirm_display(T, errs):
    """[(error json)] -> [(ok, description)] against the real Display impl"""
    res = T.batch([('display', e) for e in errs])
    out = []
    for e, r in zip(errs, res):
        if not r['ok']:
            out.append((False, f'Display / parse of {json.dumps(e)} failed: {r["error"]}'))
        elif r['display'] != want_display(e):
            out.append((False, f'Display of {json.dumps(e)} prints {r["display"]!r}, expected {want_display(e)!r}'))
        else:
            out.append((True, r['display']))
    return out


# ------------------------------------------------------------------ response grammar (native sampling)

ABSENT = object()


def strip_nulls(v, top=True):
    return v


def norm_error(e):
    """what must be preserved of one error entry: its four known members, null == absent"""
    out = {'message': e['message']}
    for k in ('locations', 'path', 'extensions'):
        if e.get(k) is not None:
            out[k] = e[k]
    if 'locations' in out:
        out['locations'] = [{'line': l['line'], 'column': l['column']} for l in out['locations']]
    return out


def norm_body(b):
    out = {}
    if b.get('data') is not None:
        out['data'] = b['data']
    if b.get('errors') is not None:
        out['errors'] = [norm_error(e) for e in b['errors']]
    if b.get('extensions') is not None:
        out['extensions'] = b['extensions']
    return out


def grammar_bodies(tier, seed):
    rnd = random.Random(seed)
    ext_values = [{}, {'code': 'X'}, {'n': {'a': [1, None, {'b': 2.5}], 'c': True}, 'z': None}]
    paths = [ABSENT, None, [], ['a'], [0], ['a', 0, 'b'], [3, 'x', 4], ['', ''], ['a/'], ['/'], ['ünï', 2147483647], [-1]]
    locs = [ABSENT, None, [], [{'line': 1, 'column': 2}], [{'line': 3, 'column': 4}, {'line': 0, 'column': 0}], [{'line': 2147483647, 'column': -5, 'extra': 'x'}]]
    exts = [ABSENT, None] + ext_values
    errors = []
    for p, l, x in itertools.product(paths, locs, exts):
        e = {'message': rnd.choice(['', 'boom', 'a: b/c', 'ü'])}
        for k, v in (('path', p), ('locations', l), ('extensions', x)):
            if v is not ABSENT:
                e[k] = v
        if rnd.random() < 0.3:
            e['unknown'] = rnd.choice([1, 'x', None, {'deep': [1, 2]}])
        errors.append(e)
    rnd.shuffle(errors)
    if tier == 'quick':
        errors = errors[:120]
    datas = [ABSENT, None, {}, {'a': 1, 'b': [None, {'c': 'x'}]}]
    bodies = []
    err_lists = [ABSENT, None, []] + [[e] for e in errors] + [errors[i:i + 3] for i in range(0, min(len(errors), 60), 3)]
    for i, el in enumerate(err_lists):
        for d in (datas if i < 3 else [rnd.choice(datas)]):
            for x in (exts if i < 3 else [rnd.choice(exts)]):
                b = {}
                if d is not ABSENT:
                    b['data'] = d
                if el is not ABSENT:
                    b['errors'] = el
                if x is not ABSENT:
                    b['extensions'] = x
                if rnd.random() < 0.25:
                    b['unknown_member'] = rnd.choice([1, None, {'k': []}])
                bodies.append(b)
    return bodies


def check_bodies(T, bodies):
    """-> list of (role, description, payload) for bodies that are rejected / not preserved"""
    res = T.batch([('response', b) for b in bodies], timeout=300)
    bad = []
    for b, r in zip(bodies, res):
        if not r['ok']:
            bad.append(('native:spec-body-rejected', f'conforming body {json.dumps(b)} is rejected: {r["error"]}', b))
            continue
        if not r['roundtrip']:
            bad.append(('native:roundtrip-not-identity', f'deserialize(serialize(r)) != r for r = parse({json.dumps(b)}); serialized as {json.dumps(r["json"])}', b))
            continue
        for k in ('data', 'errors', 'extensions'):
            if r[f'{k}_is_some'] != (b.get(k) is not None):
                bad.append(('native:member-lost', f'body {json.dumps(b)}: `{k}` parsed to {"Some" if r[f"{k}_is_some"] else "None"}', b))
                break
        else:
            if norm_body(r['json']) != norm_body(b):
                bad.append(('native:content-not-preserved', f'body {json.dumps(b)} re-serializes to {json.dumps(r["json"])}', b))
    return bad


def main():
    t0 = time.time()
    tier = vc.tier()
    out = vc.Outcome(PROP)
    sc = vc.scratch(PROP)
    T = native.ReplayTool(sc)
    T.start_build()
    R = mcheck.MRun(vc.REPO, sc, 'client', max_depth=60)
    maxpath = 2 if tier == 'quick' else 4
    try:
        cands = K.k_error_display(R, maxpath)
    except Exception as e:  # noqa
        cands = []
        out.inconc(f'error_display kernel: {type(e).__name__}: {e}')
    replayed = 0
    seen = set()
    for c in cands:
        if 'path' not in c:
            out.inconc('error_display: ' + c['what'])
            continue
        e = error_json(c['path'], c['message'], c['location'])
        role = 'display:' + ('path-not-slash-joined' if c['path'] is not None else 'no-path')
        if role in seen:
            continue
        (ok, desc), = confirm_display(T, [e])
        replayed += 1
        if ok:
            out.inconc(f'solver counterexample {json.dumps(e)} did not reproduce natively ({desc})')
        else:
            seen.add(role)
            out.violation(role, desc, dict(kind='display', error=e, solver_got=c['got'], solver_want=c['want']))
    # native sampling of the serde half (not solver-decided)
    native_n = 0
    native_bad = []
    for seed in vc.seeds():
        bodies = grammar_bodies(tier, seed)
        native_n += len(bodies)
        native_bad += check_bodies(T, bodies)
        # Display on sampled errors as well (replays the M claim on concrete inputs)
        errs = [e for b in bodies for e in (b.get('errors') or [])][:400]
        for e, (ok, desc) in zip(errs, confirm_display(T, errs)):
            if not ok and not seen:
                native_bad.append(('display:native-sample', desc, {'errors': [e]}))
        native_n += len(errs)
    seen_roles = set()
    for role, desc, b in native_bad:
        if role in seen_roles:
            continue
        seen_roles.add(role)
        out.violation(role, desc, dict(kind='response' if role.startswith('native') else 'display-sample', body=b))
    for w in R.inconclusive:
        out.inconc(w)
    cross = R.cross_check(limit=6 if tier == 'quick' else 30)
    ev = R.evidence()
    coverage = dict(
        states=R.paths, transitions=R.vm.queries, traces_validated_against_impl=replayed + native_n,
        samples=R.samples[:6],
        obligations=R.obligations, discharged=R.discharged,
        bounds=dict(max_path_entries=maxpath, path_entries='Key(unconstrained string) | Index(unconstrained i32)', message='unconstrained string',
                    location='absent | list of 0..2 locations with unconstrained i32 line / column'),
        outside_bounds='longer paths; the serde derives on Response / Error / Location / PathFragment (Content, HashMap, serde_json) are sampled natively only '
                       f'({native_n} bodies / errors from the response grammar): accept + round trip + Some/None per member + content preserved',
        engine=ev, cross_check=cross, exhaustive=False,
        solver_decided='Display of Error (total; `path:line:column: message`)', sampled_only='deserialize / serialize round trip of Response<Value>')
    vc.write_evidence(PROP, 'model_checking', coverage,
                      ['core::fmt machinery summarised: template decoded from the compiled format_args! bytes; Display of str / String is the identity',
                       'decimal rendering of an i32 is an uninterpreted string that is non-empty and does not end in `/`',
                       'str::trim_end_matches(char) summarised structurally',
                       'library summaries listed under engine.summaries_used'],
                      time.time() - t0, violations=len(out.violations))
    return out.finish()


def replay(path):
    p = json.load(open(path))
    sc = vc.scratch(PROP + 'r')
    T = native.ReplayTool(sc)
    if p.get('kind') == 'display':
        (ok, desc), = confirm_display(T, [p['error']])
        print(desc)
        return 0 if ok else 1
    body = p['body']
    bad = check_bodies(T, [body])
    errs = body.get('errors') or []
    bad += [('display', d, None) for ok, d in confirm_display(T, errs) if not ok]
    for b in bad:
        print(b[1])
    return 1 if bad else 0
