"""Dispatcher: ./check C13 --tier quick"""
import importlib
import os
import sys
import time
import traceback

HERE = os.path.dirname(os.path.abspath(__file__))
for p in ('lib', 'mirsym', 'kgen', 'checks'):
    sys.path.insert(0, os.path.join(HERE, '..', p))


def main():
    args = sys.argv[1:]
    if not args:
        print('usage: check <ID> [--tier quick|thorough] [--replay file]')
        return 2
    prop = args[0]
    if '--tier' in args:
        os.environ['VERIF_TIER'] = args[args.index('--tier') + 1]
    os.environ.setdefault('VERIF_TIER', 'quick')
    replay = args[args.index('--replay') + 1] if '--replay' in args else None
    try:
        mod = importlib.import_module(prop)
    except ModuleNotFoundError:
        print(f'no check for {prop}')
        return 2
    t0 = time.time()
    try:
        if replay:
            return mod.replay(replay)
        return mod.main()
    except Exception:
        traceback.print_exc()
        print(f'INCONCLUSIVE property={prop} the check itself failed (see traceback)')
        return 2
    finally:
        sys.stderr.write(f'[{prop}] wall {time.time() - t0:.1f}s\n')


if __name__ == '__main__':
    sys.exit(main())
