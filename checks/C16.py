"""C16 - ID coercion is attached to exactly the ID-typed fields, in a form that type-checks
and accepts absence for nullable IDs (code-generation half; engine M on ExpandedField::render).

The runtime half (the untagged IntOrString helper) runs through serde's private
`Content` buffer, which no engine here can execute symbolically; it is exercised
only by the native confirmation runs below (sampled, not solver-decided).
"""
import json
import re
import time

import vp_common as vc
import consumer
import mcheck
import kernels as K

PROP = 'C16'


def helper_signatures():
    """read the coercion helpers' return types from graphql_client/src/serde_with.rs (working tree)"""
    src = open(f'{vc.REPO}/graphql_client/src/serde_with.rs').read()
    out = {}
    for m in re.finditer(r'pub fn (\w+)<([^>]*)>\s*\(\s*\w+: D\s*\)\s*->\s*Result<(.+?), D::Error>', src, re.S):
        name, generics, ret = m.group(1), m.group(2), m.group(3).strip()
        code = None
        t = ret
        c = ''
        while True:
            mm = re.match(r'^(Option|Vec)<(.*)>$', t)
            if not mm:
                break
            c += 'O' if mm.group(1) == 'Option' else 'V'
            t = mm.group(2).strip()
        if t == 'String':
            code = c + 'T'
        elif re.fullmatch(r'\w+', t) and re.search(rf'\b{t}\b', generics):
            code = '*'
        if code:
            out[f'"graphql_client::serde_with::{name}"'] = code
    return out


def id_payload(ql, as_int):
    """a conforming payload for a field of type <ql> ID, all IDs rendered as ints / strings"""
    leaf = 7 if as_int else 'x7'
    v = leaf
    for q in reversed(ql):
        if q == 'L':
            v = [v, v]
    return v


def expect_strings(v):
    if isinstance(v, list):
        return [expect_strings(x) for x in v]
    return str(v)


def confirm(C, ql, declare_id=False):
    """build a consumer for `f: <ql> ID` and run conforming payloads; returns (ok, description).
    With `declare_id` the schema spells out `scalar ID` (SDL printers commonly do)."""
    expr = K.graphql_type_expr(ql, 'ID')
    err = C.build(('scalar ID\n' if declare_id else '') + f'type Query {{ f: {expr} }}\n', 'query Q { f }\n', 'Q', 'q')
    if err:
        m = re.search(r'error(\[E\d+\])?: [^\n]*(\n[^\n]*){0,6}', err)
        return False, f'generated code for `f: {expr}` does not compile: ' + (m.group(0)[:500] if m else err[-500:]).replace('\n', ' | ')
    payloads = [{'f': id_payload(ql, True)}, {'f': id_payload(ql, False)}]
    # integer boundary values (the canonical form is the decimal string)
    for n in (0, -3, 2147483648, -9223372036854775808, 9223372036854775807):
        v = n
        for q in reversed(ql):
            if q == 'L':
                v = [v]
        payloads.append({'f': v})
    nullable = not ql or ql[0] != 'R'
    if nullable:
        payloads += [{'f': None}, {}]
    res = C.run('response', payloads)
    for p, (st, val) in zip(payloads, res):
        if st != 'ok':
            return False, f'`f: {expr}` rejects the conforming payload {json.dumps(p)}: {val}'
        want = expect_strings(p['f']) if p.get('f') is not None else None
        if val.get('f') != want:
            return False, f'`f: {expr}`: payload {json.dumps(p)} deserialized to {json.dumps(val)}, expected f = {json.dumps(want)}'
    bad = C.run('response', [{'f': 1.5}, {'f': True}, {'f': {'a': 1}}]) if not any(q == 'L' for q in ql) else []
    for (st, val) in bad:
        if st == 'ok':
            return False, f'`f: {expr}` accepts a float / boolean / object as an ID'
    return True, f'`f: {expr}` compiles; ints and strings accepted canonically'


POS_SCHEMA = """schema { query: Query }
type Query { node: Node }
interface Node { id: ID! alt: ID }
type User implements Node { id: ID! alt: ID tags: [ID] }
type Bot implements Node { id: ID! alt: ID }
"""
POS_QUERY = """query Q { node { __typename id ...Alt ... on User { alt tags } } }
fragment Alt on Node { __typename alt }
"""


def confirm_positions(C):
    """run-time half, sampled natively: nullable / list IDs in flattened (fragment spread) and variant (inline fragment)
    positions accept null, strings and integers canonically"""
    err = C.build(POS_SCHEMA, POS_QUERY, 'Q', 'q')
    if err:
        return False, 'flattened / variant ID positions: generated code does not compile: ' + err[-300:].replace('\n', ' | ')
    cases = [
        ({'node': {'__typename': 'User', 'id': 7, 'alt': None, 'tags': [1, 'b', None]}}, {'id': '7', 'alt': None, 'tags': ['1', 'b', None]}),
        ({'node': {'__typename': 'User', 'id': 'x', 'alt': 5, 'tags': None}}, {'id': 'x', 'alt': '5', 'tags': None}),
        ({'node': {'__typename': 'Bot', 'id': -3, 'alt': 'y'}}, {'id': '-3', 'alt': 'y'}),
        ({'node': {'__typename': 'Bot', 'id': '0'}}, {'id': '0', 'alt': None}),
    ]
    res = C.run('response', [p for p, _ in cases])
    for (p, want), (st, val) in zip(cases, res):
        if st != 'ok':
            return False, f'flattened / variant ID position rejects the conforming payload {json.dumps(p)}: {val}'
        node = val.get('node') or {}
        for k, v in want.items():
            if node.get(k) != v:
                return False, f'flattened / variant ID position: {json.dumps(p)} deserialized to {json.dumps(val)}, expected {k} = {json.dumps(v)}'
    return True, 'flattened and variant ID positions ok'


def role(c):
    ql = c['model']['qualifiers']
    if c['what'] == 'C16:typechecks':
        return 'id-nesting-does-not-typecheck:' + ('list' if 'L' in ql else 'scalar')
    if c['what'] == 'C16:absent-is-none':
        return 'nullable-id-rejects-absence:' + ('list' if 'L' in ql else 'scalar')
    return c['what']


def main():
    t0 = time.time()
    tier = vc.tier()
    out = vc.Outcome(PROP)
    sc = vc.scratch(PROP)
    R = mcheck.MRun(vc.REPO, sc, 'codegen')
    K.ID_HELPERS.clear()
    K.ID_HELPERS.update(helper_signatures())
    maxq = 3 if tier == 'quick' else 5
    cands = [c for c in K.k_render_field(R, maxq, {'C16'}) if c['prop'] == 'C16']
    by_role = {}
    for c in sorted(cands, key=lambda c: (len(c['model']['qualifiers']), c['model']['qualifiers'])):
        by_role.setdefault(role(c), c)
    C = consumer.Consumer(sc)
    replayed = 0
    for rl, c in list(by_role.items())[:4]:
        ql = c['model']['qualifiers']
        ok, desc = confirm(C, ql)
        replayed += 1
        if not ok:
            out.violation(rl, desc, dict(kind='solver', role=rl, claim=c['what'], field=c['model'], tokens=c.get('tokens')))
        else:
            out.inconc(f'solver counterexample {rl} {ql} did not reproduce natively: {desc}')
    # native confirmation of the runtime half on the type expressions the property lists (sampled, not solver-decided)
    native = []
    confirmed = bool(out.violations)
    if not confirmed:
        for ql in (([], ['R'], ['L', 'R'], ['R', 'L', 'R']) if tier == 'quick' else ([], ['R'], ['L', 'R'], ['R', 'L', 'R'], ['L'], ['L', 'L', 'R'], ['L', 'R', 'L'])):
            ok, desc = confirm(C, ql)
            replayed += 1
            native.append(dict(type_expression=K.graphql_type_expr(ql, 'ID'), ok=ok, note=desc[:160]))
            if not ok:
                out.violation('native:' + K.graphql_type_expr(ql, 'ID'), desc, dict(kind='native', qualifiers=ql))
    if not confirmed:
        for ql in ([], ['L', 'R']):
            ok, desc = confirm(C, ql, declare_id=True)
            replayed += 1
            native.append(dict(type_expression=K.graphql_type_expr(ql, 'ID'), schema_declares_scalar_ID=True, ok=ok, note=desc[:160]))
            if not ok:
                out.violation('native:declared-scalar-ID', 'schema with an explicit `scalar ID` definition: ' + desc, dict(kind='native', qualifiers=ql, declare_id=True))
                break
    if not confirmed:
        ok, desc = confirm_positions(C)
        replayed += 1
        native.append(dict(positions='fragment spread (flatten) and inline fragment (variant)', ok=ok, note=desc[:200]))
        if not ok:
            out.violation('native:flattened-or-variant-id', desc, dict(kind='native', schema=POS_SCHEMA, query=POS_QUERY))
    for w in R.inconclusive:
        out.inconc(w)
    cross = R.cross_check(limit=6 if tier == 'quick' else 30)
    ev = R.evidence()
    coverage = dict(
        states=R.paths, transitions=R.vm.queries, traces_validated_against_impl=replayed,
        samples=R.samples[:6] + native[:5] + [dict(helper_signatures=K.ID_HELPERS)],
        obligations=R.obligations, discharged=R.discharged,
        bounds=dict(max_qualifiers=maxq, strings='field / type names and reasons are unconstrained z3 strings'),
        outside_bounds='runtime coercion itself (serde Content); flattened / variant positions at run time; longer qualifier lists',
        engine=ev, cross_check=cross, exhaustive=False)
    vc.write_evidence(PROP, 'model_checking', coverage,
                      ['representation invariant of ExpandedField (stated in kernels.k_render_field) describes what calculate_selection builds',
                       'serde: a field with deserialize_with and without default is required',
                       'library summaries listed under engine.summaries_used'],
                      time.time() - t0, violations=len(out.violations))
    return out.finish()


def replay(path):
    p = json.load(open(path))
    sc = vc.scratch(PROP + 'r')
    ql = p.get('field', {}).get('qualifiers', p.get('qualifiers', []))
    ok, desc = confirm(consumer.Consumer(sc), ql, declare_id=bool(p.get('declare_id')))
    print(desc)
    return 0 if ok else 1
