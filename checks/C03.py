"""C03 - generated response types reject what the schema forbids (engine K-gen, restricted scope).

Same harnesses as C01 with one symbolic single-point corruption per payload
(null / absent at a non-null position, a JSON value of another kind at a scalar,
object or list position): CBMC decides that `deserialize` fails whenever the oracle
says the payload does not conform.  `__typename` dispatch (tagged enums) is outside.
"""
import json
import vp_common as vc
import krun
import abstract_common as AC

PROP = 'C03'


def build(c):
    c.derive_modules(lambda e: [v for v in e['variants'] if v in ('base', 'rust')])
    c.add_response_harnesses({PROP: 'v != Verdict::AcceptedInvalid'}, lambda e: [v for v in e['variants'] if v in ('base', 'rust')] if c.tier == 'thorough' else ['base'])


def main():
    return krun.standard_check(
        PROP, build, ok_real=lambda v: v != 'AcceptedInvalid',
        describe='a payload the schema forbids is accepted',
        level_text='bounded model checking of generated Deserialize/Serialize impls',
        assumptions=['SV / CheckSer harness models mirror serde_json::Value (validated natively on every run)',
                     'payload shapes: list lengths 0..2, one optional unknown member per object, symbolic i64 / f64 / bool, strings concrete (quick) or <= 1 symbolic byte (thorough)',
                     'operations: the catalogue under kgen/catalogue; interface / union / fragment-spread / ID positions are excluded (serde Content)'],
        jobs=6, pre=lambda out: AC.part(PROP, out, with_render=True))


def replay(path):
    def other(p):
        import consumer
        import abstract_common as AC
        C = consumer.Consumer(vc.scratch(PROP + 'r'))
        mdl = p['model']
        if 'via' in mdl:
            ok, desc, _ = AC.confirm_nesting(C, mdl)
        elif 'selections' in mdl:
            ok, desc, _ = AC.confirm(C, mdl, other_variant=mdl.get('fragments_other_variant', False))
        else:
            ok, desc, _ = AC.confirm_required(C, mdl)
        print(desc)
        return 1 if ok is False else 0
    return krun.replay_generic(PROP, build, lambda v: v != 'AcceptedInvalid', path, other=other)
