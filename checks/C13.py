"""C13 - one exact rule maps GraphQL type modifiers to Option / Vec nesting.

Engine M (MIR -> z3): `decorate_type` for every qualifier list up to a length
bound; `schema::resolve_field_type` (SDL) and `json_conversion::from_json_type_inner`
(JSON) for every type expression up to a wrapper-depth bound, each against the
reference rule.  Counterexamples are replayed through graphql-client's public
code-generation API before they are reported.
"""
import itertools
import time

import vp_common as vc
import native
import introspect
import gql
import mcheck
import kernels as K

PROP = 'C13'


def field_type_of(text, struct, field):
    items = native.parse_generated(text)
    mod = native.find_mod(items)
    it = native.find_item(mod.items, struct, 'struct')
    if it is None:
        return None
    f = it.field(field)
    return native.type_str(f[1]) if f else None


def gen_types(rt, ql, via):
    """generate code for a schema whose field / variable / input field have the type expression `ql`;
    returns dict position -> rust type string (or an error marker)"""
    expr = K.graphql_type_expr(ql, 'Int')
    sdl = f'''schema {{ query: Query }}
input In {{ m: {expr} }}
type Query {{ f(a: {expr}, i: In): {expr} }}
'''
    query = f'query Q($v: {expr}, $i: In) {{ f(a: $v, i: $i) }}\n'
    if via == 'json':
        schema_src, ext = introspect.to_introspection(gql.parse_schema(sdl)), 'json'
    else:
        schema_src, ext = sdl, 'graphql'
    r = rt.gen(schema_src, query, {}, schema_ext=ext)
    if r['status'] != 'ok':
        return {'error': f"{r['status']}: {r['text'][:200]}"}
    return {
        'response field': field_type_of(r['text'], 'ResponseData', 'f'),
        'variable': field_type_of(r['text'], 'Variables', 'v'),
        'input field': field_type_of(r['text'], 'In', 'm'),
    }


def gen_member_type(rt, ql, target, oneof):
    """the generated type of an input-object member `m: <ql> <target>` (struct field or @oneOf variant payload), Box removed"""
    tname = 'Int' if target == 'S' else target
    expr = K.graphql_type_expr(ql, tname)
    sdl = ('schema { query: Query }\n' + f'input I{" @oneOf" if oneof else ""} {{ m: {expr} o: Int }}\n' +
           'input I1 { me: I1 }\ninput I2 { x: Int }\ntype Query { f(i: I): Int }\n')
    r = rt.gen(sdl, 'query Q($i: I) { f(i: $i) }\n', {})
    if r['status'] != 'ok':
        return None, f"{r['status']}: {r['text'][:200]}", sdl
    mod = native.find_mod(native.parse_generated(r['text']))
    it = native.find_item(mod.items, 'I', 'enum' if oneof else 'struct')
    if it is None:
        return None, 'type I not generated', sdl
    f = it.field('M' if oneof else 'm')
    if not f:
        return None, 'member m not generated', sdl
    ty = native.type_str(f[1]).replace(' ', '')
    while ty.startswith('(') and ty.endswith(')'):
        ty = ty[1:-1]
    if ty.startswith('Box<') and ty.endswith('>'):
        ty = ty[4:-1]
    want = K.ref_nesting_concrete((['R'] + list(ql)) if oneof else ql).replace('T', tname)
    return ty, want, sdl


def expected(ql):
    return K.ref_nesting_concrete(ql).replace('T', 'Int')


def valid(ql):
    return not any(a == 'R' and b == 'R' for a, b in zip(ql, ql[1:]))


def main():
    t0 = time.time()
    tier = vc.tier()
    out = vc.Outcome(PROP)
    sc = vc.scratch(PROP)
    rt = native.ReplayTool(sc)
    rt.start_build()
    R = mcheck.MRun(vc.REPO, sc, 'codegen')
    maxlen, depth = (6, 4) if tier == 'quick' else (9, 6)
    cands = []
    cands += K.k_decorate_type(R, maxlen)
    cands += K.k_resolve_field_type(R, depth)
    cands += K.k_from_json_type(R, depth)
    # use sites: response fields, variables, input-object members, @oneOf variants (names, qualifiers, options symbolic)
    uq = 2 if tier == 'quick' else 3
    use_cands = [c for c in R.run_parallel([(K.k_render_field, (2, {'C13'})), (K.k_variable_field, (uq,)), (K.k_input_member, ('struct', uq)),
                                            (K.k_input_member, ('oneof', uq))]) if c['prop'] == 'C13']

    # --- differential self-test of the engine on concrete inputs (also exercises the three positions)
    selftest = 0
    st_depth = 2 if tier == 'quick' else 3
    lists = [list(q) for n in range(0, 2 * st_depth + 1) for q in itertools.product('RL', repeat=n) if valid(q) and q.count('L') <= st_depth]
    if tier == 'quick':
        lists = [q for q in lists if len(q) <= 3]
    native_mismatch = []
    for ql in lists:
        for via in ('sdl', 'json'):
            got = gen_types(rt, ql, via)
            selftest += 1
            want = expected(ql)
            for pos, ty in got.items():
                if ty != want:
                    native_mismatch.append((ql, via, pos, ty, want))
    # every native mismatch is a real violation (found by enumeration, reported as such)
    for ql, via, pos, ty, want in native_mismatch[:3]:
        out.violation(f'native:{via}:{pos}:{"".join(ql)}', f'{K.graphql_type_expr(ql)} at {pos} via {via}: generated `{ty}`, rule says `{want}`',
                      dict(kind='native', qualifiers=ql, via=via, position=pos, got=ty, want=want))
    # built-in scalar aliases (five concrete facts read from the generated module)
    r = rt.gen('type Query { a: Int }', 'query Q { a }', {})
    aliases = {}
    if r['status'] == 'ok':
        mod = native.find_mod(native.parse_generated(r['text']))
        for it in mod.items:
            if it.kind == 'type':
                aliases[it.name] = native.type_str(it.rhs)
    want_alias = {'Boolean': 'bool', 'Float': 'f64', 'Int': 'i64', 'ID': 'String'}
    for k, v in want_alias.items():
        if aliases.get(k) != v:
            out.violation(f'alias:{k}', f'built-in scalar {k} is aliased to {aliases.get(k)!r}, expected {v}', dict(kind='alias', name=k, got=aliases.get(k)))

    # --- replay solver counterexamples through the public API
    replayed = 0
    seen = set()
    for c in sorted(cands, key=lambda c: (len(c['qualifiers']), c['qualifiers'])):
        ql = c['qualifiers']
        if not valid(ql):
            continue
        if c['kernel'] in seen:
            continue
        via = 'json' if c['kernel'] == 'from_json_type_inner' else 'sdl'
        got = gen_types(rt, ql, via)
        replayed += 1
        want = expected(ql)
        bad = {pos: ty for pos, ty in got.items() if ty != want}
        if bad:
            seen.add(c['kernel'])
            out.violation(f"{c['kernel']}:{''.join(ql) or 'bare'}", f"{K.graphql_type_expr(ql)} via {via}: generated {bad}, rule says `{want}`",
                          dict(kind='solver', kernel=c['kernel'], qualifiers=ql, via=via, generated=got, want=want, model_output=c.get('got')))
        else:
            out.inconc(f"solver counterexample for {c['kernel']} {ql} did not reproduce natively (encoding error?)")
    for c in use_cands:
        mdl = c.get('model') or {}
        ql = mdl.get('qualifiers', [])
        key = c['kernel'] + ':' + c['what']
        if key in seen or not valid(ql):
            continue
        if c['kernel'].startswith('input_member'):
            ty, want, sdl = gen_member_type(rt, ql, mdl.get('target', 'S'), c['kernel'].endswith('oneof'))
            replayed += 1
            if ty is None:
                out.inconc(f'use-site counterexample {key} {mdl} could not be replayed: {want}')
            elif ty != want:
                seen.add(key)
                out.violation(f"use-site:{c['kernel']}", f"input member `m: {K.graphql_type_expr(ql, mdl.get('target', 'S'))}`: generated `{ty}`, rule says `{want}`",
                              dict(kind='member', kernel=c['kernel'], qualifiers=ql, target=mdl.get('target', 'S'), oneof=c['kernel'].endswith('oneof'), schema=sdl))
            else:
                out.inconc(f'use-site counterexample {key} {mdl} did not reproduce natively')
        else:
            got = gen_types(rt, ql, 'sdl')
            replayed += 1
            want = expected(ql)
            bad = {pos: ty for pos, ty in got.items() if ty != want}
            if bad:
                seen.add(key)
                out.violation(f"use-site:{c['kernel']}", f"{K.graphql_type_expr(ql)}: generated {bad}, rule says `{want}`", dict(kind='solver', kernel=c['kernel'], qualifiers=ql, via='sdl'))
            else:
                out.inconc(f'use-site counterexample {key} {mdl} did not reproduce natively')
    if cands and not any(valid(c['qualifiers']) for c in cands):
        out.inconc('solver counterexamples exist only for `!!` qualifier lists, which no GraphQL type expression produces')
    for w in R.inconclusive:
        out.inconc(w)
    cross = R.cross_check(limit=6 if tier == 'quick' else 40)
    ev = R.evidence()
    coverage = dict(
        states=R.paths, transitions=R.vm.queries, traces_validated_against_impl=selftest + replayed,
        samples=R.samples[:8] + [dict(native_selftest=f'{len(lists)} qualifier lists x (sdl, json) x 3 positions', example=expected(['L', 'R', 'L']))],
        obligations=R.obligations, discharged=R.discharged,
        bounds=dict(decorate_type_max_qualifiers=maxlen, type_expression_max_wrappers=depth, native_selftest_list_depth=st_depth),
        outside_bounds='longer qualifier lists / deeper type expressions; `!!` lists (not producible from GraphQL syntax)',
        engine=ev, cross_check=cross, exhaustive=False)
    vc.write_evidence(PROP, 'model_checking', coverage,
                      ['MIR printed by the pinned nightly is the code rustc compiles', 'library summaries listed under engine.summaries_used',
                       'graphql-parser / serde_json front ends deliver the ASTs the kernels receive'],
                      time.time() - t0, violations=len(out.violations))
    return out.finish()


def replay(path):
    import json
    p = json.load(open(path))
    sc = vc.scratch(PROP + 'r')
    rt = native.ReplayTool(sc)
    if p.get('kind') == 'member':
        ty, want, _ = gen_member_type(rt, p['qualifiers'], p['target'], p['oneof'])
        print(json.dumps(dict(generated=ty, rule=want)))
        return 1 if ty != want else 0
    if 'qualifiers' in p:
        got = gen_types(rt, p['qualifiers'], p.get('via', 'sdl'))
        want = expected(p['qualifiers'])
        print(json.dumps(dict(type_expression=K.graphql_type_expr(p['qualifiers']), generated=got, rule=want)))
        return 1 if any(v != want for v in got.values()) else 0
    return 2
