"""C18 - the derive macro applies exactly the options written in #[graphql(...)] (engine M, restricted).

`attributes::{extract_attr, extract_attr_list, ident_exists}` are executed symbolically from the MIR of
graphql_query_derive on every well-formed arrangement of up to N entries (`key = "value"`, flag, `key("a", "b")`; any
order, optional trailing comma, other attributes around), keys and values unconstrained strings: each returns the
value of the entry with the requested key, or an error when there is none.  String-literal syntax (escapes, raw
strings) is abstracted: syn::parse_str::<LitStr> + value() is the identity on the literal's value.
Counterexamples are replayed by compiling a consumer crate whose attribute has the failing arrangement.
"""
import json
import os
import re
import shutil
import time

import vp_common as vc
import mcheck
import kernels as K

PROP = 'C18'

MAIN = r'''#![allow(dead_code)]
use graphql_client::GraphQLQuery;
#[derive(Debug)]
#[derive(GraphQLQuery)]
#[graphql(ATTRS)]
#[allow(dead_code)]
pub struct Q;
fn main() {
    let v = q::Variables { a: None };
    let body = serde_json::to_string(&Q::build_query(v)).unwrap();
    let r: q::ResponseData = serde_json::from_str(r#"{"x": 1}"#).unwrap();
    println!("{} {:?}", body, r);
}
'''


def arrangement(shape, trailing):
    pool = {'kv': ['schema_path = "gql/s.graphql"', 'query_path = "gql/q.graphql"', 'response_derives = "Debug,PartialEq"', 'deprecated = "allow"', 'normalization = "rust"'],
            'flag': ['skip_serializing_none'], 'list': ['extern_enums("E1", "E2")']}
    must = ['schema_path = "gql/s.graphql"', 'query_path = "gql/q.graphql"', 'response_derives = "Debug,PartialEq"', 'skip_serializing_none']
    out = []
    used = set()
    for kd in shape:
        for cand in pool[kd]:
            if cand not in used:
                used.add(cand)
                out.append(cand)
                break
    for m_ in must:
        if m_ not in used:
            out.append(m_)
    return ', '.join(out) + (',' if trailing else '')


def confirm(sc, shape, trailing):
    d = os.path.join(sc, 'c18')
    shutil.rmtree(d, ignore_errors=True)
    os.makedirs(os.path.join(d, 'src'))
    os.makedirs(os.path.join(d, 'gql'))
    open(os.path.join(d, 'Cargo.toml'), 'w').write(f'[package]\nname = "c18"\nversion = "0.0.0"\nedition = "2021"\n[dependencies]\ngraphql_client = {{ path = "{vc.REPO}/graphql_client" }}\n'
                                                    'serde = { version = "1", features = ["derive"] }\nserde_json = "1"\n[workspace]\n')
    shutil.copy(os.path.join(vc.REPO, 'Cargo.lock'), os.path.join(d, 'Cargo.lock'))
    open(os.path.join(d, 'gql', 's.graphql'), 'w').write('type Query { x(a: Int): Int }\n')
    open(os.path.join(d, 'gql', 'q.graphql'), 'w').write('query Q($a: Int) { x(a: $a) }\n')
    attrs = arrangement(shape, trailing)
    open(os.path.join(d, 'src', 'main.rs'), 'w').write(MAIN.replace('ATTRS', attrs))
    rc, out, _ = vc.run(['cargo', 'run', '--offline', '--target-dir', os.path.join(sc, 'c18-target')], cwd=d, timeout=900)
    if rc != 0:
        m = re.search(r'error[^\n]*(\n[^\n]*){0,3}', out)
        return False, f'#[graphql({attrs})]: ' + (m.group(0)[:300] if m else out[-300:]).replace('\n', ' | ')
    last = out.strip().split('\n')[-1]
    if '"variables":{}' not in last:
        return False, f'#[graphql({attrs})]: skip_serializing_none was not applied: {last[:200]}'
    return True, f'#[graphql({attrs})] ok: {last[:120]}'


STYLES_MAIN = r'''#![allow(dead_code, non_camel_case_types)]
use graphql_client::GraphQLQuery;
#[derive(Debug, PartialEq, serde::Deserialize, serde::Serialize)]
pub enum Direction { NORTH, SOUTH }
DERIVES
fn main() {
    let body = r#"{"x": 1, "d": "NORTH"}"#;
USES
    println!("styles ok");
}
'''

LITERAL_STYLES = [('plain', '"Direction"', '"allow"'), ('raw', 'r"Direction"', 'r"allow"'), ('raw-hash', 'r#"Direction"#', 'r##"allow"##'),
                  ('escaped', '"D\\u{69}rection"', '"a\\u{6c}low"')]


def confirm_literal_styles(sc):
    """native, sampled: every string-literal style (plain / raw / raw with hashes / escaped) of an `extern_enums(...)` entry and
    of a `key = "value"` pair reaches the option unchanged: the module must use the consumer's own `Direction` (it does not
    compile otherwise) and `deprecated` must be accepted"""
    d = os.path.join(sc, 'c18s')
    shutil.rmtree(d, ignore_errors=True)
    os.makedirs(os.path.join(d, 'src'))
    os.makedirs(os.path.join(d, 'gql'))
    open(os.path.join(d, 'Cargo.toml'), 'w').write(f'[package]\nname = "c18s"\nversion = "0.0.0"\nedition = "2021"\n[dependencies]\ngraphql_client = {{ path = "{vc.REPO}/graphql_client" }}\n'
                                                    'serde = { version = "1", features = ["derive"] }\nserde_json = "1"\n[workspace]\n')
    shutil.copy(os.path.join(vc.REPO, 'Cargo.lock'), os.path.join(d, 'Cargo.lock'))
    open(os.path.join(d, 'gql', 's.graphql'), 'w').write('enum Direction { NORTH SOUTH }\nunion U = A | B\ntype A { x: Int }\ntype B { y: Int }\n'
                                                           'type Query { x(a: Int): Int d: Direction u: U }\n')
    derives, uses = [], []
    # boolean-valued keys: the value written reaches the option ("false" is off, "true" is on, absent is off)
    open(os.path.join(d, 'gql', 'qu.graphql'), 'w').write('query Qu { u { __typename ... on A { x } } }\n')
    for tag, attr, accepts in (('f', 'fragments_other_variant = "false", ', False), ('t', 'fragments_other_variant = "true", ', True), ('n', '', False)):
        derives.append(f'#[derive(GraphQLQuery)]\n#[graphql(schema_path = "gql/s.graphql", query_path = "gql/qu.graphql", {attr}response_derives = "Debug")]\npub struct Qu{tag};')
        open(os.path.join(d, 'gql', f'qu{tag}.graphql'), 'w').write(f'query Qu{tag} {{ u {{ __typename ... on A {{ x }} }} }}\n')
        derives[-1] = derives[-1].replace('gql/qu.graphql', f'gql/qu{tag}.graphql')
        uses.append(f'    let ru{tag} = serde_json::from_str::<qu{tag}::ResponseData>(r#"{{"u": {{"__typename": "Zzz"}}}}"#);\n'
                    f'    assert_eq!(ru{tag}.is_ok(), {str(accepts).lower()}, "fragments_other_variant: attribute `{attr.strip(", ").replace(chr(34), chr(39))}` must {"accept" if accepts else "reject"} an unknown __typename");')
    for i, (style, enum_lit, dep_lit) in enumerate(LITERAL_STYLES):
        open(os.path.join(d, 'gql', f'q{i}.graphql'), 'w').write(f'query Q{i}($a: Int) {{ x(a: $a) d }}\n')
        derives.append(f'#[derive(GraphQLQuery)]\n#[graphql(schema_path = "gql/s.graphql", query_path = "gql/q{i}.graphql", response_derives = "Debug,PartialEq", '
                       f'deprecated = {dep_lit}, extern_enums({enum_lit}))]\npub struct Q{i};')
        uses.append(f'    let r{i}: q{i}::ResponseData = serde_json::from_str(body).unwrap();\n    let d{i}: Option<Direction> = r{i}.d;\n    assert_eq!(d{i}, Some(Direction::NORTH));')
    open(os.path.join(d, 'src', 'main.rs'), 'w').write(STYLES_MAIN.replace('DERIVES', '\n'.join(derives)).replace('USES', '\n'.join(uses)))
    rc, out, _ = vc.run(['cargo', 'run', '--offline', '--target-dir', os.path.join(sc, 'c18-target')], cwd=d, timeout=900)
    if rc != 0 and 'fragments_other_variant: attribute' in out:
        m = re.search(r'fragments_other_variant: attribute[^\n]*', out)
        return False, 'a boolean-valued key does not reach the option unchanged: ' + m.group(0)[:300]
    if rc != 0 or 'styles ok' not in out:
        m = re.search(r'^error[^\n]*(\n[^\n]*){0,6}', out, re.M)
        which = re.search(r'q(\d)::', m.group(0)) if m else None
        style = LITERAL_STYLES[int(which.group(1))][0] if which else '?'
        return False, f'string-literal styles {[x[0] for x in LITERAL_STYLES]} of extern_enums(..) / deprecated = ..: the `{style}` form does not reach the option: ' + \
            (m.group(0)[:400] if m else out[-300:]).replace('\n', ' | ')
    return True, 'all literal styles reach the options'


def main():
    t0 = time.time()
    tier = vc.tier()
    out = vc.Outcome(PROP)
    sc = vc.scratch(PROP)
    R = mcheck.MRun(vc.REPO, sc, 'derive', max_depth=60)
    n = 2 if tier == 'quick' else 3
    cands = K.k_derive_attributes(R, n)
    replayed = 0
    seen = set()
    for c in cands:
        key = (tuple(c.get('shape', ())), c.get('trailing_comma'))
        if key in seen or len(seen) >= 3:
            continue
        seen.add(key)
        ok, desc = confirm(sc, c.get('shape', ()), c.get('trailing_comma', False))
        replayed += 1
        if not ok:
            out.violation(f"arrangement:{'-'.join(c.get('shape', ()))}:{'trailing' if c.get('trailing_comma') else 'plain'}", f"{c['what']}: {desc}", dict(kind='solver', model=c))
        else:
            out.inconc(f'solver counterexample {c} did not reproduce in a consumer crate: {desc}')
    # one native confirmation of a representative permutation on every run
    ok, desc = confirm(sc, ('flag', 'kv', 'list'), True)
    replayed += 1
    if not ok:
        out.violation('native:flag-kv-list-trailing', desc, dict(kind='native'))
    # and of the literal styles, which the kernel abstracts (source text of a literal is an uninterpreted string)
    ok2, desc2 = confirm_literal_styles(sc)
    replayed += 1
    if not ok2:
        out.violation('native:literal-styles', desc2, dict(kind='native-styles'))
        # the arrangement counterexamples above that "did not reproduce" with plain literals are explained by this
        out.inconclusive = [w for w in out.inconclusive if 'did not reproduce in a consumer crate' not in w]
    for w in R.inconclusive:
        out.inconc(w)
    cross = R.cross_check(limit=4 if tier == 'quick' else 20)
    coverage = dict(
        states=R.paths, transitions=R.vm.queries, traces_validated_against_impl=replayed, samples=R.samples[:4] + [dict(native=desc[:200])],
        obligations=R.obligations, discharged=R.discharged,
        bounds=dict(max_entries=n, entry_kinds=['key = "value"', 'flag', 'key("a", "b")'], trailing_comma=[False, True]),
        outside_bounds='literal escapes / raw strings (syn), build_graphql_client_derive_options (syn / FromStr plumbing), path resolution against CARGO_MANIFEST_DIR, malformed attributes',
        engine=R.evidence(), cross_check=cross, exhaustive=False)
    vc.write_evidence(PROP, 'model_checking', coverage,
                      ['keys within one attribute are distinct', 'syn::parse_str::<LitStr>(lit.to_string()).value() is the literal value', 'library summaries listed under engine.summaries_used'],
                      time.time() - t0, violations=len(out.violations))
    return out.finish()


def replay(path):
    p = json.load(open(path))
    sc = vc.scratch(PROP + 'r')
    if p.get('kind') == 'native-styles':
        ok, desc = confirm_literal_styles(sc)
        print(desc)
        return 0 if ok else 1
    if p.get('kind') == 'native':
        ok, desc = confirm(sc, ('flag', 'kv', 'list'), True)
        print(desc)
        return 0 if ok else 1
    ok, desc = confirm(sc, p['model'].get('shape', ()), p['model'].get('trailing_comma', False))
    print(desc)
    return 0 if ok else 1
