"""C06 - operations the schema cannot answer are never turned into code (engine M, restricted).

Kernels executed symbolically from MIR:
  selection::validate_type_conditions   over a schema with 2 objects / 1 interface / 1 union whose
                                        `implements` and membership bits are symbolic, parent and condition
                                        types symbolic: Ok  =>  the possible types intersect
  query::resolve_selection              symbolic field type (object / interface / union / scalar / enum) with an
                                        empty or a non-empty sub-selection: Ok => composite xor empty
  query::resolve (end to end)           on two document templates: `a { ...F } b { ...F }` with symbolic parent and fragment
                                        types (the driver: which selections get validated), and `a { s1 s2 }` where each s_i is
                                        symbolically a field / spread / inline fragment with a *free* name: Ok => fields exist,
                                        fragments and types are defined, conditions can apply, __typename present on abstract types
  validation::selection_set_contains_type_name is additionally covered for termination in C17.
Counterexamples are rendered as GraphQL text and run through the public generator: `generation succeeded`
on an invalid operation is the violation.  Name lookups (unknown field / fragment / type) and the text
parsers are outside the claim.
"""
import json
import time

import vp_common as vc
import native
import mcheck
import kernels as K

PROP = 'C06'


def schema_for(c):
    impl = c.get('implements', [False, False])
    memb = c.get('members', [False, False])
    lines = ['schema { query: Query }', 'type Query { o0: O0 o1: O1 i0: I0 u0: U0 }', 'interface I0 { x: Int }']
    for o in range(2):
        lines.append(f'type O{o}{" implements I0" if impl[o] else ""} {{ x: Int }}')
    members = ([f'O{o}' for o in range(2) if memb[o]] or ['D']) + (['U0'] if c.get('self_union') else [])
    lines.append('type D { x: Int }')
    lines.append('union U0 = ' + ' | '.join(members))
    return '\n'.join(lines) + '\n'


def render_type_condition(c):
    root = {'O0': 'o0', 'O1': 'o1', 'I0': 'i0', 'U0': 'u0'}[c['parent']]
    inner = '__typename' if c['condition'] == 'U0' else '__typename x'
    if c['kind'] == 'inline':
        q = f"query Q {{ {root} {{ __typename ... on {c['condition']} {{ {inner} }} }} }}\n"
    else:
        q = f"query Q {{ {root} {{ __typename ...F0 }} }}\nfragment F0 on {c['condition']} {{ {inner} }}\n"
    return schema_for(c), q


def render_subselection(c):
    schema = schema_for({})
    field = {'object': 'o0', 'interface': 'i0', 'union': 'u0'}.get(c['type_kind'])
    if 'without sub-selection' in c['what']:
        return schema, f'query Q {{ {field} }}\n'
    return schema.replace('type Query {', 'type Query { s: Int'), 'query Q { s { __typename } }\n'


def main():
    t0 = time.time()
    tier = vc.tier()
    out = vc.Outcome(PROP)
    sc = vc.scratch(PROP)
    rt = native.ReplayTool(sc)
    rt.start_build()
    R = mcheck.MRun(vc.REPO, sc, 'codegen', max_depth=60, max_paths=20000 if tier == 'quick' else 150000)
    cands = K.k_type_conditions(R) + K.k_resolve_selection(R) + K.k_resolve_document(R) + K.k_resolve_selection_sets(R, 2 if tier == 'quick' else 3)
    for F, S in ([(2, 2)] if tier == 'quick' else [(2, 2), (2, 3)]):
        cands += K.k_typename_presence(R, F, S)
    cands = [c for c in cands if c['prop'] == 'C06']

    def cyclic_spreads(c):
        # witnesses without spread cycles first: they replay as plain documents
        return sum(1 for i, fr in enumerate(c.get('fragments') or []) for s_ in fr['selections'] if s_.startswith('...F') and int(s_[4:]) <= i)
    cands.sort(key=cyclic_spreads)
    replayed = 0
    seen = set()
    for c in cands:
        if c['kernel'] == 'resolve_document':
            role = 'driver:repeated-spread'
            schema = schema_for(c).replace('type Query { o0: O0 o1: O1 i0: I0 u0: U0 }', f"type Query {{ a: {c['a']} b: {c['b']} }}")
            inner = '__typename' if c['fragment_on'] == 'U0' else '__typename x'
            query = f"query Q {{ a {{ __typename ...F }} b {{ __typename ...F }} }}\nfragment F on {c['fragment_on']} {{ {inner} }}\n"
        elif c['kernel'] == 'resolve_selection_sets':
            role = 'selection-set:' + ','.join(str(x) for x in c.get('failing_rule', []))[:20]
            schema = schema_for(c).replace('type Query { o0: O0 o1: O1 i0: I0 u0: U0 }', f"type Query {{ a: {c['a']} }}")
            query = f"query Q {{ a {{ {' '.join(c['selections'])} }} }}\nfragment F on {c['fragment_on']} {{ {c['fragment_field']} }}\n"
        elif c['kernel'] == 'typename_presence':
            import synth
            role = 'typename:abstract-fragment-without-typename'
            schema, query = synth.fragment_texts(c['fragments'], use=int(c['target'][1:]))
        elif c['kernel'] == 'type_conditions':
            role = f"type-condition:{'object' if c['parent'].startswith('O') else 'abstract'}-parent"
            schema, query = render_type_condition(c)
        else:
            role = 'sub-selection:' + ('composite-without' if 'without' in c['what'] else 'leaf-with')
            schema, query = render_subselection(c)
        if role in seen:
            continue
        r = rt.gen(schema, query, {})
        replayed += 1
        if r['status'] == 'ok':
            seen.add(role)
            out.violation(role, f"{c['what']}: generation succeeds for `{query.strip()}`", dict(kind='solver', role=role, model=c, schema=schema, query=query))
    for c in cands:
        role_known = any(True for _ in [0])
    # native facts of the rule catalogue that involve only lookups (concrete, not solver-decided)
    base = schema_for({'implements': [True, False], 'members': [True, False]})
    invalid = {
        'unknown field': 'query Q { o0 { nope } }',
        'undefined fragment': 'query Q { o0 { ...Nope } }',
        'unknown type condition': 'query Q { i0 { __typename ... on Nope { x } } }',
        'missing __typename on interface': 'query Q { i0 { x } }',
        'missing __typename on union': 'query Q { u0 { ... on O0 { x } } }',
        'leaf with sub-selection': 'query Q { o0 { x { y } } }',
        'anonymous operation': '{ o0 { x } }',
        'mutation without mutation root': 'mutation M { o0 { x } }',
        'subscription without root': 'subscription S { o0 { x } }',
    }
    native_facts = []
    for what, q in invalid.items():
        r = rt.gen(base, q + '\n', {})
        replayed += 1
        native_facts.append(dict(edit=what, status=r['status']))
        if r['status'] == 'ok':
            out.violation('native:' + what.replace(' ', '-'), f'{what}: generation succeeds for `{q}`', dict(kind='native', schema=base, query=q))
        elif r['status'] in ('crash', 'timeout'):
            out.violation('native-crash:' + what.replace(' ', '-'), f'{what}: generator {r["status"]}', dict(kind='native', schema=base, query=q))
    # an explicit schema block that omits a root means the schema has no such root, whatever the type names suggest
    norootm = base + 'type Mutation { x: Int }\ntype Subscription { x: Int }\n'
    for what, q in (('mutation although the schema block declares no mutation root', 'mutation M { x }'), ('subscription although the schema block declares no subscription root', 'subscription S { x }')):
        r = rt.gen(norootm, q + '\n', {})
        replayed += 1
        native_facts.append(dict(edit=what, status=r['status']))
        if r['status'] == 'ok':
            out.violation('native:root-omitted-by-schema-block', f'{what}: generation succeeds for `{q}` against `schema {{ query: Query }}` + `type Mutation` / `type Subscription`', dict(kind='native', schema=norootm, query=q))
    sub = base.replace('schema { query: Query }', 'schema { query: Query subscription: Query }')
    r = rt.gen(sub, 'subscription S { o0 { x } o1 { x } }\n', {})
    replayed += 1
    native_facts.append(dict(edit='two root fields in a subscription', status=r['status']))
    if r['status'] == 'ok':
        out.violation('native:subscription-two-roots', 'a subscription with two root fields is accepted', dict(kind='native', schema=sub))
    for w in R.inconclusive:
        out.inconc(w)
    cross = R.cross_check(limit=4 if tier == 'quick' else 20)
    coverage = dict(
        states=R.paths, transitions=R.vm.queries, traces_validated_against_impl=replayed, samples=R.samples[:6] + native_facts[:6],
        obligations=R.obligations, discharged=R.discharged,
        bounds=dict(schema='2 objects, 1 interface, 1 union, symbolic implements / membership', positions='validate_typename_presence on fragment graphs (2x2 [2x3]); one spread under one parent; one field with empty / non-empty sub-selection; query::resolve end to end on two document templates (repeated spread under two symbolic parents; 2 [3] selections of symbolic kind and free names under a symbolic parent)'),
        outside_bounds='name lookups and the text parser (sampled natively above), deeper nesting of the invalid position, type conditions under field / inline-fragment parents',
        engine=R.evidence(), cross_check=cross, exhaustive=False)
    vc.write_evidence(PROP, 'model_checking', coverage,
                      ['a type condition on the parent type itself is always allowed', 'BTreeMap modelled as a finite association list', 'library summaries listed under engine.summaries_used'],
                      time.time() - t0, violations=len(out.violations))
    return out.finish()


def replay(path):
    p = json.load(open(path))
    sc = vc.scratch(PROP + 'r')
    r = native.ReplayTool(sc).gen(p['schema'], p['query'], {})
    print(r['status'], r['text'][:300])
    return 1 if r['status'] == 'ok' else 0
