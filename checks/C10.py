"""C10 - generated enums are open-world string bijections (engine K-gen).

For every enum generated for the catalogue operations (values including Rust
keywords, near-miss spellings, single values; normalization none / rust;
reached from responses, variables and input fields) and every string that is
either a schema value with at most one byte edited / appended / removed or a
free ASCII string up to a length bound, CBMC decides:
deserialization succeeds, serialize(deserialize(s)) == s as a bare string,
`Other` is used exactly for non-schema strings, and distinct schema values map
to distinct variants.
"""
import vp_common as vc
import krun

PROP = 'C10'


def build(c):
    c.derive_modules(lambda e: [v for v in e['variants'] if v in ('base', 'rust')])
    c.add_enum_harnesses(PROP, lambda e: [v for v in e['variants'] if v in ('base', 'rust')])


def main():
    return krun.standard_check(
        PROP, build, ok_real=lambda v: v == 'Ok',
        describe='generated enum is not an open-world string bijection',
        level_text='bounded model checking of the generated Serialize/Deserialize impls',
        assumptions=['SV / CheckSer harness models mirror serde_json::Value (validated natively on every run)',
                     'strings: schema values with <= 1 byte edit, and free ASCII strings up to 3 (quick) / 5 (thorough) bytes; longer and non-ASCII strings are outside the bound',
                     'enum definitions: the catalogue under kgen/catalogue (program axis is a catalogue, not a quantifier)'],
        jobs=6)
