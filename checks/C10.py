"""C10 - generated enums are open-world string bijections (engine K-gen).

For every enum generated for the catalogue operations (values including Rust
keywords, near-miss spellings, single values; normalization none / rust;
reached from responses, variables and input fields) and every string that is
either a schema value with at most one byte edited / appended / removed or a
free ASCII string up to a length bound, CBMC decides:
deserialization succeeds, serialize(deserialize(s)) == s as a bare string,
`Other` is used exactly for non-schema strings, and distinct schema values map
to distinct variants.
"""
import vp_common as vc
import json
import krun

PROP = 'C10'


def build(c):
    c.derive_modules(lambda e: [v for v in e['variants'] if v in ('base', 'rust')])
    c.add_enum_harnesses(PROP, lambda e: [v for v in e['variants'] if v in ('base', 'rust')])


def enum_part(out):
    """engine M: the per-enum closure of generate_enum_definitions with unconstrained value names (the program axis the
    K-gen catalogue only samples): the wire literals of the generated impls are the schema's value names, under every
    normalization.  Counterexamples are replayed through the real generator (the literals are read from its output)."""
    import re
    import mcheck
    import native
    import kernels as K
    sc = vc.scratch(PROP + 'm')
    R = mcheck.MRun(vc.REPO, sc, 'codegen', max_depth=80)
    cands = []
    for nv in ((1, 2) if vc.tier() == 'quick' else (1, 2, 3)):
        cands += [c for c in K.k_enum_definition(R, nv) if c['prop'] == PROP]
    import abstract_common as AC
    import consumer
    C = consumer.Consumer(sc)
    replayed = 0
    for c in cands[:1]:
        ok, desc, rp = AC.confirm_enum_literals(C, c['model'])
        replayed += 1
        if ok is False:
            out.violation('enum-literals:' + str(c['model'].get('normalization')).lower(), desc, rp)
        else:
            out.inconc(f"enum literal counterexample {c['model']} did not reproduce natively")
    if not cands:
        # native sample on every run (the schema front ends are outside the kernel): enum definitions next to a body-less enum
        ok, desc, rp = AC.confirm_enum_literals(C, dict(values=['??'], normalization='None'))
        replayed += 1
        if ok is False:
            out.violation('native:enum-definitions', desc, rp)
    for w in R.inconclusive:
        out.inconc(w)
    ev = R.evidence()
    ev.update(paths=R.paths, obligations=R.obligations, discharged=R.discharged, replayed=replayed, samples=R.samples[:3])
    return ev


def main():
    return krun.standard_check(
        PROP, build, ok_real=lambda v: v == 'Ok',
        describe='generated enum is not an open-world string bijection',
        level_text='bounded model checking of the generated Serialize/Deserialize impls',
        assumptions=['SV / CheckSer harness models mirror serde_json::Value (validated natively on every run)',
                     'strings: schema values with <= 1 byte edit, and free ASCII strings up to 3 (quick) / 5 (thorough) bytes; longer and non-ASCII strings are outside the bound',
                     'enum definitions: the catalogue under kgen/catalogue (program axis is a catalogue, not a quantifier)'],
        jobs=6, pre=enum_part)


def replay(path):
    def other(p):
        import consumer
        import abstract_common as AC
        ok, desc, _ = AC.confirm_enum_literals(consumer.Consumer(vc.scratch(PROP + 'r')), p['model'])
        print(desc)
        return 1 if ok is False else 0
    return krun.replay_generic(PROP, build, lambda v: v == 'Ok', path, other=other)
