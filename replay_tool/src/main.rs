//! Native replay / differential helper for the /verif checks.
//! Everything goes through graphql-client's *public* API.
//!
//!   verif_replay gen <schema-file> <query-file> <options-json>
//!       -> "OK\n<token stream>"  |  "ERR\n<message>"   (panics keep their message on stderr, exit 101)
//!   verif_replay gen-seq <options-json> <schema1> <query1> <schema2> <query2> ...
//!       -> one line "OK\t<tokens>" | "ERR\t<message>" per pair, all generated in this one process
//!   verif_replay display <error-json>
//!       -> Display of a graphql_client::Error built from JSON
//!   verif_replay response <body-json>
//!       -> deserialize Response<serde_json::Value>, re-serialize
//!   verif_replay batch   (stdin: one `display\t<json>` or `response\t<json>` per line)
//!       -> one JSON object per line: {"ok":..,"display":..} / {"ok":..,"json":..,"roundtrip":..,"error":..}
use graphql_client_codegen::{
    deprecation::DeprecationStrategy, generate_module_token_stream, normalization::Normalization, CodegenMode,
    GraphQLClientCodegenOptions,
};
use std::path::PathBuf;

fn options_from(v: &serde_json::Value) -> GraphQLClientCodegenOptions {
    let mode = match v.get("mode").and_then(|m| m.as_str()) {
        Some("derive") => CodegenMode::Derive,
        _ => CodegenMode::Cli,
    };
    let mut o = GraphQLClientCodegenOptions::new(mode);
    if let Some(s) = v.get("operation_name").and_then(|m| m.as_str()) {
        o.set_operation_name(s.to_owned());
    }
    if let Some(s) = v.get("struct_ident").and_then(|m| m.as_str()) {
        o.set_struct_ident(syn::Ident::new(s, proc_macro2::Span::call_site()));
    }
    if let Some(s) = v.get("normalization").and_then(|m| m.as_str()) {
        o.set_normalization(if s == "rust" { Normalization::Rust } else { Normalization::None });
    }
    if let Some(s) = v.get("deprecation").and_then(|m| m.as_str()) {
        o.set_deprecation_strategy(match s {
            "allow" => DeprecationStrategy::Allow,
            "deny" => DeprecationStrategy::Deny,
            _ => DeprecationStrategy::Warn,
        });
    }
    if let Some(b) = v.get("skip_serializing_none").and_then(|m| m.as_bool()) {
        o.set_skip_serializing_none(b);
    }
    if let Some(b) = v.get("fragments_other_variant").and_then(|m| m.as_bool()) {
        o.set_fragments_other_variant(b);
    }
    if let Some(s) = v.get("response_derives").and_then(|m| m.as_str()) {
        o.set_response_derives(s.to_owned());
    }
    if let Some(s) = v.get("variables_derives").and_then(|m| m.as_str()) {
        o.set_variables_derives(s.to_owned());
    }
    if let Some(a) = v.get("extern_enums").and_then(|m| m.as_array()) {
        o.set_extern_enums(a.iter().filter_map(|x| x.as_str().map(|s| s.to_owned())).collect());
    }
    if let Some(s) = v.get("serde_path").and_then(|m| m.as_str()) {
        o.set_serde_path(syn::parse_str(s).expect("serde path"));
    }
    if let Some(s) = v.get("custom_scalars_module").and_then(|m| m.as_str()) {
        o.set_custom_scalars_module(syn::parse_str(s).expect("custom_scalars_module path"));
    }
    o
}

fn main() {
    let args: Vec<String> = std::env::args().collect();
    match args.get(1).map(|s| s.as_str()) {
        Some("gen") => {
            let opts: serde_json::Value = serde_json::from_str(args.get(4).map(|s| s.as_str()).unwrap_or("{}")).expect("options json");
            let o = options_from(&opts);
            match generate_module_token_stream(PathBuf::from(&args[3]), &PathBuf::from(&args[2]), o) {
                Ok(ts) => {
                    println!("OK");
                    println!("{}", ts);
                }
                Err(e) => {
                    println!("ERR");
                    println!("{}", e);
                }
            }
        }
        Some("gen-seq") => {
            // several (schema, query) pairs generated one after the other in this one process:
            // verif_replay gen-seq <options-json> <schema1> <query1> <schema2> <query2> ...
            let opts: serde_json::Value = serde_json::from_str(args.get(2).map(|s| s.as_str()).unwrap_or("{}")).expect("options json");
            let mut i = 3;
            while i + 1 < args.len() {
                let o = options_from(&opts);
                match generate_module_token_stream(PathBuf::from(&args[i + 1]), &PathBuf::from(&args[i]), o) {
                    Ok(ts) => println!("OK\t{}", ts.to_string().replace('\n', " ")),
                    Err(e) => println!("ERR\t{}", e.to_string().replace('\n', " ")),
                }
                i += 2;
            }
        }
        Some("display") => {
            let e: graphql_client::Error = serde_json::from_str(&args[2]).expect("error json");
            println!("{}", e);
        }
        Some("response") => {
            match serde_json::from_str::<graphql_client::Response<serde_json::Value>>(&args[2]) {
                Ok(r) => {
                    println!("OK");
                    println!("{}", serde_json::to_string(&r).unwrap());
                }
                Err(e) => {
                    println!("ERR");
                    println!("{}", e);
                }
            }
        }
        Some("batch") => {
            use std::io::BufRead;
            let stdin = std::io::stdin();
            for line in stdin.lock().lines() {
                let line = line.expect("stdin");
                let (cmd, arg) = match line.split_once('\t') {
                    Some(x) => x,
                    None => continue,
                };
                let out = match cmd {
                    "display" => match serde_json::from_str::<graphql_client::Error>(arg) {
                        Ok(e) => {
                            let shown = std::panic::catch_unwind(|| format!("{}", e));
                            match shown {
                                Ok(d) => serde_json::json!({"ok": true, "display": d}),
                                Err(_) => serde_json::json!({"ok": false, "error": "Display panicked"}),
                            }
                        }
                        Err(e) => serde_json::json!({"ok": false, "error": e.to_string()}),
                    },
                    "response" => match serde_json::from_str::<graphql_client::Response<serde_json::Value>>(arg) {
                        Ok(r) => {
                            let text = serde_json::to_string(&r).unwrap();
                            let back = serde_json::from_str::<graphql_client::Response<serde_json::Value>>(&text);
                            let rt = match &back {
                                Ok(b) => *b == r,
                                Err(_) => false,
                            };
                            serde_json::json!({"ok": true, "json": serde_json::from_str::<serde_json::Value>(&text).unwrap(), "roundtrip": rt,
                                               "data_is_some": r.data.is_some(), "errors_is_some": r.errors.is_some(), "extensions_is_some": r.extensions.is_some()})
                        }
                        Err(e) => serde_json::json!({"ok": false, "error": e.to_string()}),
                    },
                    _ => serde_json::json!({"ok": false, "error": "unknown command"}),
                };
                println!("{}", out);
            }
        }
        _ => {
            eprintln!("usage: verif_replay gen|display|response ...");
            std::process::exit(2);
        }
    }
}
