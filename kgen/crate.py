"""Assemble the K-gen consumer crate (sources only; building is the caller's job)."""
import json
import os
import shutil
import sys

HERE = os.path.dirname(os.path.abspath(__file__))
sys.path.insert(0, HERE)
sys.path.insert(0, os.path.join(HERE, '..', 'lib'))
import gql  # noqa: E402
import gen  # noqa: E402

CARGO_TOML = '''[package]
name = "kgen_consumer"
version = "0.0.0"
edition = "2021"

[dependencies]
graphql_client = { path = "REPO/graphql_client" }
serde = { version = "1", features = ["derive"] }
serde_json = "1"

[workspace]

[profile.dev]
debug = false
incremental = false

[lints.rust]
unexpected_cfgs = { level = "allow", check-cfg = ['cfg(kani)'] }
'''

MAIN_RS = r'''
#[cfg(kani)]
fn main() {}

#[cfg(not(kani))]
use kgen_consumer::vsup::BytesSrc;

#[cfg(not(kani))]
fn parse_items(s: &str) -> Vec<Vec<u8>> {
    // "01,ff00,..."  one hex blob per kani::any() call
    if s.is_empty() { return vec![]; }
    s.split(',').map(|h| (0..h.len() / 2).map(|i| u8::from_str_radix(&h[2 * i..2 * i + 2], 16).unwrap()).collect()).collect()
}

#[cfg(not(kani))]
struct Rng(u64);
#[cfg(not(kani))]
impl Rng {
    fn next(&mut self) -> u64 {
        self.0 ^= self.0 << 13; self.0 ^= self.0 >> 7; self.0 ^= self.0 << 17; self.0
    }
}

#[cfg(not(kani))]
fn main() {
    let args: Vec<String> = std::env::args().collect();
    match args[1].as_str() {
        "list" => { for n in kgen_consumer::NATIVE_NAMES { println!("{}", n); } }
        "replay" => {
            let mut src = BytesSrc::new(parse_items(&args[3]));
            let r = kgen_consumer::native_run(&args[2], &mut src).expect("unknown harness");
            println!("{}", serde_json::json!({"harness": args[2], "model": r.0, "real": r.1, "vacuous": src.vacuous, "detail": r.2}));
        }
        "fuzz" => {
            // differential validation of the SV / Rec models against serde_json on random choices
            let seed: u64 = args[3].parse().unwrap();
            let count: usize = args[4].parse().unwrap();
            let mut rng = Rng(seed.wrapping_mul(0x9E3779B97F4A7C15) | 1);
            let mut ran = 0usize; let mut mismatches = 0usize; let mut real_bad = 0usize;
            let mut first: Option<String> = None;
            for _ in 0..count {
                let mut items = Vec::new();
                for _ in 0..400 {
                    let r = rng.next();
                    let small = rng.next() % 4;
                    // bias towards small values so that `below(n)` draws are rarely vacuous
                    let v = if small != 0 { (r % 4) as u64 } else { r };
                    items.push(v.to_le_bytes().to_vec());
                }
                let mut src = BytesSrc::new(items);
                src.wrap = true;
                let r = kgen_consumer::native_run(&args[2], &mut src).expect("unknown harness");
                if src.vacuous { continue; }
                ran += 1;
                if r.0 != r.1 { mismatches += 1; if first.is_none() { first = Some(format!("model={} real={} {}", r.0, r.1, r.2)); } }
                if r.1 != "Ok" { real_bad += 1; if first.is_none() { first = Some(format!("real={} {}", r.1, r.2)); } }
            }
            println!("{}", serde_json::json!({"harness": args[2], "ran": ran, "model_mismatches": mismatches, "real_not_ok": real_bad, "first": first}));
        }
        _ => panic!("usage"),
    }
}
'''


def used_enums(schema, doc, op):
    """enum type names the operation needs (selection + variables, transitively)"""
    seen_inputs = set()
    out = []

    def add(n):
        if n not in out:
            out.append(n)

    def walk_input(name):
        td = schema.get(name)
        if td is None:
            return
        if td.kind == 'enum':
            add(name)
        elif td.kind == 'input' and name not in seen_inputs:
            seen_inputs.add(name)
            for fd in td.fields:
                walk_input(fd.type.named())

    def walk_sels(tname, sels, seen_frags):
        for sel in sels:
            if sel.kind == 'field':
                if sel.name == '__typename':
                    continue
                fd = schema.field(tname, sel.name)
                if fd is None:
                    continue
                ft = fd.type.named()
                td = schema.get(ft)
                if td and td.kind == 'enum':
                    add(ft)
                elif td and td.kind in ('object', 'interface', 'union'):
                    walk_sels(ft, sel.sels, seen_frags)
            elif sel.kind == 'inline':
                walk_sels(sel.on or tname, sel.sels, seen_frags)
            elif sel.kind == 'spread' and sel.name not in seen_frags:
                fr = doc.frag(sel.name)
                if fr:
                    walk_sels(fr.on, fr.sels, seen_frags | {sel.name})

    root = schema.roots.get(op.kind)
    if root:
        walk_sels(root, op.sels, set())
    for vd in op.vars:
        walk_input(vd.type.named())
    return out


def rs_str(s):
    return json.dumps(s)


def max_selset(schema, sels):
    m = len(sels)
    for sel in sels:
        if sel.sels:
            m = max(m, max_selset(schema, sel.sels))
    return m


def max_keylen(sels):
    m = 2
    for sel in sels:
        if sel.kind == 'field':
            m = max(m, len(sel.key))
        if sel.sels:
            m = max(m, max_keylen(sel.sels))
    return m


def max_input_keylen(schema, op):
    m = max([len(v.name) for v in op.vars] + [2])
    seen = set()

    def walk(name):
        nonlocal m
        td = schema.get(name)
        if td is None or td.kind != 'input' or name in seen:
            return
        seen.add(name)
        for fd in td.fields:
            m = max(m, len(fd.name))
            walk(fd.type.named())
    for vd in op.vars:
        walk(vd.type.named())
    return m


def max_input_width(schema, op):
    m = len(op.vars)
    seen = set()

    def walk(name):
        nonlocal m
        td = schema.get(name)
        if td is None or td.kind != 'input' or name in seen:
            return
        seen.add(name)
        m = max(m, len(td.fields))
        for fd in td.fields:
            walk(fd.type.named())
    for vd in op.vars:
        walk(vd.type.named())
    return m


class Crate:
    def __init__(self, dst, repo='/repo', tier='quick', only=None):
        self.dst = dst
        self.repo = repo
        self.tier = tier
        self.entries = [e for e in gen.load_catalogue(only) if tier == 'thorough' or e.get('tier', 'quick') == 'quick']
        self.mods = []        # rust source chunks
        self.harnesses = []   # dicts: name, prop, kind, unwind, entry, ...
        self.native = []      # (name, rust expr body)
        self.skipped = []

    # ---------------------------------------------------------------- derive modules
    def derive_modules(self, variants_by_entry):
        for entry in self.entries:
            schema = gql.parse_schema(entry['schema_src'])
            doc = gql.parse_query(entry['query_src'])
            entry['_schema'], entry['_doc'] = schema, doc
            ops = [o for o in doc.ops if o.name and (not entry.get('ops') or o.name in entry['ops'])]
            entry['_ops'] = ops
            scal = '\n'.join(f'    pub type {k} = {v};' for k, v in entry.get('scalars', {}).items())
            for variant in variants_by_entry(entry):
                if variant in entry.get('skip_variants', []):
                    continue
                body = ''.join(gen.derive_block(entry, op, variant, entry.get('extra_attrs', '')) for op in ops)
                self.mods.append(f'pub mod m_{entry["name"]}_{variant} {{\n    #![allow(non_camel_case_types, non_snake_case, dead_code, deprecated)]\n{scal}\n{body}}}\n')

    def scalar_mod(self):
        seen = {}
        for e in self.entries:
            for k, v in e.get('scalars', {}).items():
                seen.setdefault(k, v)
        return '\n'.join(f'    pub type {k} = {v};' for k, v in seen.items())

    def add_relational_harnesses(self, prop, pairs):
        """C09: the same payload / assignment through two option variants of the same operation gives the same verdict"""
        for entry in self.entries:
            schema, doc = entry['_schema'], entry['_doc']
            b = gen.Builder(schema, doc, entry, self.tier)
            for op in self.ops_for(entry, 'response'):
                if op.name in entry.get('no_relational', []) and self.tier == 'quick':
                    continue
                bn = f'resp_{entry["name"]}_{gen.snake(op.name)}'
                try:
                    code, sites = b.response_builder(op, f'b_{bn}')
                except gen.Unsupported as ex:
                    self.skipped.append((entry['name'], op.name, 'response', str(ex)))
                    continue
                if not any(f'fn b_{bn}<' in m for m in self.mods):
                    self.mods.append(code)
                evl = max([len(v) for en in used_enums(schema, doc, op) for v in schema.get(en).values] + [0])
                unwind = max(max_selset(schema, op.sels) + 3, b.maxlist + 2, b.strlen + 2, evl + 2, max_keylen(op.sels) + 2)
                for va, vb in pairs(entry):
                    if va in entry.get('skip_variants', []) or vb in entry.get('skip_variants', []) or va not in entry['variants'] + ['opts'] or vb not in entry['variants'] + ['opts']:
                        continue
                    ta, tb = self.tpath(entry, va, op, 'ResponseData'), self.tpath(entry, vb, op, 'ResponseData')
                    hn = f'rel_{bn}_{va}_{vb}'
                    self.mods.append(f'''
#[cfg(kani)]
#[kani::proof]
#[kani::unwind({unwind})]
fn k_{prop}_{hn}() {{
    let (va, vb, conf) = b_{bn}(&mut KaniSrc, |sv, c| (check_roundtrip::<{ta}>(sv, c, false), check_roundtrip::<{tb}>(sv, c, false), c));
    kani::cover!(conf && va == Verdict::Ok, "witness_conforming");
    kani::cover!(!conf && va == Verdict::Ok, "witness_corrupted");
    assert!(va == vb);
}}
''')
                    self.harnesses.append(dict(name=f'k_{prop}_{hn}', prop=prop, kind='relational', entry=entry['name'], native=f'n_{hn}',
                                               what=f'{op.name} ResponseData under `{va}` vs `{vb}`', covers=2, unwind=unwind))
                    self.native.append((f'n_{hn}', f'''b_{bn}(src, |sv, c| {{
    let (ra, da) = check_roundtrip_native::<{ta}>(sv, c, false);
    let (rb, db) = check_roundtrip_native::<{tb}>(sv, c, false);
    let ma = check_roundtrip::<{ta}>(sv, c, false);
    let mb = check_roundtrip::<{tb}>(sv, c, false);
    let model = if ma == mb {{ "Ok".to_string() }} else {{ format!("Differ({{:?}},{{:?}})", ma, mb) }};
    let real = if ra == rb {{ "Ok".to_string() }} else {{ format!("Differ({{:?}},{{:?}})", ra, rb) }};
    (model, real, format!("{{}} || {{}}", da, db))
}})'''))

    def add_envelope_harnesses(self, prop):
        """C15: graphql_client::Response<T> over a symbolic spec-shaped body, T = a plain generated ResponseData"""
        for entry in self.entries:
            schema, doc = entry['_schema'], entry['_doc']
            b = gen.Builder(schema, doc, entry, self.tier)
            for op in entry['_ops']:
                if op.name not in entry.get('envelope_ops', []):
                    continue
                bn = f'resp_{entry["name"]}_{gen.snake(op.name)}'
                if not any(f'fn b_{bn}<' in m for m in self.mods):
                    code, _sites = b.response_builder(op, f'b_{bn}')
                    self.mods.append(code)
                t = self.tpath(entry, 'base', op, 'ResponseData')
                unwind = max(max_selset(schema, op.sels) + 3, b.maxlist + 2, 8 + 2, max_keylen(op.sels) + 2, 12)
                for ext in ('absent', 'null'):
                    hn = f'env_{bn}_{ext}'
                    ext_sv = 'SV::absent()' if ext == 'absent' else 'SV::null()'
                    self.mods.append(f'''
pub fn b_{hn}<S: Src, R>(s: &mut S, k: impl FnOnce(SV<'_>, bool) -> R) -> R {{
    // all envelope choices are drawn first; the data payload is built by the response builder afterwards
    let (a0, a1, a2, a3) = (s.i64() as i32 as i64, s.i64() as i32 as i64, s.i64() as i32 as i64, s.i64() as i32 as i64);
    let nloc = s.below(3) as usize;
    let lk = match s.below(3) {{ 0 => K_ABSENT, 1 => K_NULL, _ => K_SEQ }};
    let nerr = s.below(3) as usize;
    let ek = match s.below(3) {{ 0 => K_ABSENT, 1 => K_NULL, _ => K_SEQ }};
    let dk = s.below(3);
    let extra = s.bool();
    b_{bn}(s, |data, conf| {{
        // locations: absent | null | list of 0..2 entries with symbolic i32 line / column (+ an unknown member)
        let l0 = [("line", SV::int(a0)), ("column", SV::int(a1)), ("zz", SV::int(0))];
        let l1 = [("line", SV::int(a2)), ("column", SV::int(a3)), ("zz", SV::int(0))];
        let locs = [SV::map(&l0), SV::map(&l1)];
        let loc_sv = SV {{ kind: lk, b: true, i: 7, f: 0.5, s: "x", seq: &locs[..nloc], map: &[] }};
        let e0 = [("message", SV::str("boom")), ("locations", loc_sv), ("path", {ext_sv}), ("extensions", {ext_sv}), ("zz", SV::int(1))];
        let e1 = [("message", SV::str("")), ("locations", SV::absent()), ("path", SV::absent()), ("extensions", SV::absent()), ("zz", SV::absent())];
        let errs = [SV::map(&e0), SV::map(&e1)];
        let err_sv = SV {{ kind: ek, b: true, i: 7, f: 0.5, s: "x", seq: &errs[..nerr], map: &[] }};
        // data: the conforming / corrupted payload, or null, or absent
        let data_sv = match dk {{ 0 => SV::absent(), 1 => SV::null(), _ => data }};
        let body = [("data", data_sv), ("errors", err_sv), ("extensions", {ext_sv}), ("zz", if extra {{ SV::int(2) }} else {{ SV::absent() }})];
        k(SV::map(&body), conf || dk < 2)
    }})
}}

#[cfg(kani)]
#[kani::proof]
#[kani::unwind({unwind})]
fn k_{prop}_{hn}() {{
    let (v, conf) = b_{hn}(&mut KaniSrc, |sv, c| (check_roundtrip::<graphql_client::Response<{t}>>(sv, c, false), c));
    kani::cover!(conf && v == Verdict::Ok, "witness_body_roundtrip");
    assert!(!conf || v == Verdict::Ok);
}}
''')
                    self.harnesses.append(dict(name=f'k_{prop}_{hn}', prop=prop, kind='envelope', entry=entry['name'], native=f'n_{hn}',
                                               what=f'Response<{op.name}::ResponseData>, extensions {ext}', covers=1, unwind=unwind))
                    self.native.append((f'n_{hn}', f'''b_{hn}(src, |sv, c| {{
    let model = check_roundtrip::<graphql_client::Response<{t}>>(sv, c, false);
    let (real, detail) = check_roundtrip_native::<graphql_client::Response<{t}>>(sv, c, false);
    let fix = |v: Verdict| if !c && v == Verdict::AcceptedInvalid || !c && v == Verdict::Ok {{ "Ok".to_string() }} else {{ format!("{{:?}}", v) }};
    (fix(model), fix(real), detail)
}})'''))

    def tpath(self, entry, variant, op, item):
        return f'crate::m_{entry["name"]}_{variant}::{gen.snake(op.name)}::{item}'

    # ---------------------------------------------------------------- harness families
    def add_enum_harnesses(self, prop, variants):
        n_edit = 3 if self.tier == 'quick' else 5
        for entry in self.entries:
            schema, doc = entry['_schema'], entry['_doc']
            for op in entry['_ops']:
                for en in used_enums(schema, doc, op):
                    if en in entry.get('extern_enums', []):
                        continue
                    td = schema.get(en)
                    vals = td.values
                    maxlen = max(len(v) for v in vals) + 1
                    for variant in variants(entry):
                        if variant in entry.get('skip_variants', []):
                            continue
                        t = self.tpath(entry, variant, op, en)
                        hn = f'enum_{entry["name"]}_{gen.snake(op.name)}_{en}_{variant}'
                        vals_rs = ', '.join(rs_str(v) for v in vals)
                        body = f'''
pub fn b_{hn}<S: Src>(s: &mut S) -> (EnumVerdict, bool) {{
    const VALUES: &[&str] = &[{vals_rs}];
    let mut buf = [0u8; {maxlen + 1}];
    let (st, near) = enum_input::<S, {maxlen + 1}>(s, VALUES, &mut buf, {n_edit});
    (enum_check::<{t}>(st, VALUES, |e| matches!(e, {t}::Other(_))), near)
}}
pub fn d_{hn}() -> bool {{
    const VALUES: &[&str] = &[{vals_rs}];
    enum_distinct::<{t}>(VALUES, |e| matches!(e, {t}::Other(_)))
}}
'''
                        self.mods.append(body)
                        unwind = maxlen + 4
                        self.mods.append(f'''
#[cfg(kani)]
#[kani::proof]
#[kani::unwind({unwind})]
fn k_{prop}_{hn}() {{
    let (v, near) = b_{hn}(&mut KaniSrc);
    kani::cover!(near && v == EnumVerdict::Ok, "witness_near_value");
    kani::cover!(!near && v == EnumVerdict::Ok, "witness_free_string");
    assert!(v == EnumVerdict::Ok);
}}
#[cfg(kani)]
#[kani::proof]
#[kani::unwind({unwind})]
fn k_{prop}_dist_{hn}() {{
    assert!(d_{hn}());
}}
''')
                        self.harnesses.append(dict(name=f'k_{prop}_{hn}', prop=prop, kind='enum', entry=entry['name'], native=f'n_{hn}',
                                                   what=f'enum {en} ({len(vals)} values) in {op.name}, variant {variant}', covers=2, unwind=unwind))
                        self.harnesses.append(dict(name=f'k_{prop}_dist_{hn}', prop=prop, kind='enum_distinct', entry=entry['name'], native=f'n_dist_{hn}',
                                                   what=f'enum {en} distinctness in {op.name}, variant {variant}', covers=0))
                        self.native.append((f'n_{hn}', f'''{{
    const VALUES: &[&str] = &[{vals_rs}];
    let mut buf = [0u8; {maxlen + 1}];
    let (st, _near) = enum_input::<_, {maxlen + 1}>(src, VALUES, &mut buf, {n_edit});
    let model = enum_check::<{t}>(st, VALUES, |e| matches!(e, {t}::Other(_)));
    let (real, detail) = enum_check_native::<{t}>(st, VALUES, |e| matches!(e, {t}::Other(_)));
    (format!("{{:?}}", model), format!("{{:?}}", real), detail)
}}'''))
                        self.native.append((f'n_dist_{hn}', f'''{{
    let ok = d_{hn}();
    (if ok {{ "Ok".into() }} else {{ "NotDistinct".into() }}, if ok {{ "Ok".into() }} else {{ "NotDistinct".into() }}, String::new())
}}'''))

    def ops_for(self, entry, kind):
        ops = entry['_ops']
        skip = entry.get(f'no_{kind}', [])
        if self.tier == 'thorough' and skip != 'all':
            skip = [x for x in skip if x not in entry.get(f'thorough_{kind}', [])]
        ops = [o for o in ops if o.name not in skip and skip != 'all']
        if skip == 'all':
            return []
        if self.tier == 'quick' and entry.get('thorough_ops'):
            ops = [o for o in ops if o.name not in entry['thorough_ops']]
        return ops

    def add_response_harnesses(self, props, variants):
        """props: dict prop -> rust predicate over Verdict `v` that must hold"""
        for entry in self.entries:
            schema, doc = entry['_schema'], entry['_doc']
            b = gen.Builder(schema, doc, entry, self.tier)
            for op in self.ops_for(entry, 'response'):
                bn = f'resp_{entry["name"]}_{gen.snake(op.name)}'
                try:
                    code, sites = b.response_builder(op, f'b_{bn}')
                except gen.Unsupported as ex:
                    self.skipped.append((entry['name'], op.name, 'response', str(ex)))
                    continue
                self.mods.append(code)
                evl = max([len(v) for en in used_enums(schema, doc, op) for v in schema.get(en).values] + [0])
                unwind = max(max_selset(schema, op.sels) + 3, b.maxlist + 2, b.strlen + 2, evl + 2, max_keylen(op.sels) + 2)
                for variant in variants(entry):
                    if variant in entry.get('skip_variants', []):
                        continue
                    t = self.tpath(entry, variant, op, 'ResponseData')
                    hn = f'{bn}_{variant}'
                    for prop, pred in props.items():
                        self.mods.append(f'''
#[cfg(kani)]
#[kani::proof]
#[kani::unwind({unwind})]
fn k_{prop}_{hn}() {{
    let (v, conf) = b_{bn}(&mut KaniSrc, |sv, c| (check_roundtrip::<{t}>(sv, c, false), c));
    kani::cover!(conf && v == Verdict::Ok, "witness_conforming_roundtrip");
    kani::cover!(!conf && v == Verdict::Ok, "witness_corrupted_rejected");
    assert!({pred});
}}
''')
                        self.harnesses.append(dict(name=f'k_{prop}_{hn}', prop=prop, kind='response', entry=entry['name'], native=f'n_{hn}',
                                                   what=f'{op.name} ResponseData, variant {variant}, {len(sites)} corruption sites', sites=sites, covers=2, unwind=unwind))
                    self.native.append((f'n_{hn}', f'''b_{bn}(src, |sv, c| {{
    let model = check_roundtrip::<{t}>(sv, c, false);
    let (real, detail) = check_roundtrip_native::<{t}>(sv, c, false);
    (format!("{{:?}}", model), format!("{{:?}}", real), detail)
}})'''))

    def add_variables_harnesses(self, prop, variants):
        for entry in self.entries:
            schema, doc = entry['_schema'], entry['_doc']
            b = gen.Builder(schema, doc, entry, self.tier)
            for op in self.ops_for(entry, 'variables'):
                if not op.vars:
                    continue
                for variant in variants(entry):
                    if variant in entry.get('skip_variants', []):
                        continue
                    skip = gen.VARIANTS[variant][2]
                    bn = f'vars_{entry["name"]}_{gen.snake(op.name)}_{"skip" if skip else "noskip"}'
                    if not any(bn in m for m in self.mods):
                        try:
                            code = b.variables_builder(op, f'b_{bn}', skip)
                        except gen.Unsupported as ex:
                            self.skipped.append((entry['name'], op.name, 'variables', str(ex)))
                            continue
                        self.mods.append(code)
                    t = self.tpath(entry, variant, op, 'Variables')
                    evl = max([len(v) for en in used_enums(schema, doc, op) for v in schema.get(en).values] + [0])
                    unwind = max(max_input_width(schema, op) + 3, b.maxlist + 2, b.strlen + 2, evl + 2, max_input_keylen(schema, op) + 2)
                    hn = f'vars_{entry["name"]}_{gen.snake(op.name)}_{variant}'
                    self.mods.append(f'''
#[cfg(kani)]
#[kani::proof]
#[kani::unwind({unwind})]
fn k_{prop}_{hn}() {{
    let (v, vac) = b_{bn}(&mut KaniSrc, |sv, c, vac| (if vac {{ Verdict::Ok }} else {{ check_roundtrip::<{t}>(sv, c, true) }}, vac));
    kani::cover!(!vac && v == Verdict::Ok, "witness_assignment_roundtrip");
    assert!(v == Verdict::Ok);
}}
''')
                    self.harnesses.append(dict(name=f'k_{prop}_{hn}', prop=prop, kind='variables', entry=entry['name'], native=f'n_{hn}',
                                               what=f'{op.name} Variables ({len(op.vars)} variables), variant {variant}', covers=1, unwind=unwind))
                    self.native.append((f'n_{hn}', f'''b_{bn}(src, |sv, c, vac| {{
    if vac {{ return ("Ok".to_string(), "Ok".to_string(), "vacuous".to_string()); }}
    let model = check_roundtrip::<{t}>(sv, c, true);
    let (real, detail) = check_roundtrip_native::<{t}>(sv, c, true);
    (format!("{{:?}}", model), format!("{{:?}}", real), detail)
}})'''))

    # ---------------------------------------------------------------- write out
    def write(self, extra_rs=''):
        dst = self.dst
        os.makedirs(os.path.join(dst, 'src'), exist_ok=True)
        open(os.path.join(dst, 'Cargo.toml'), 'w').write(CARGO_TOML.replace('REPO', self.repo))
        lock = os.path.join(self.repo, 'Cargo.lock')
        if os.path.exists(lock):
            shutil.copy(lock, os.path.join(dst, 'Cargo.lock'))
        for entry in self.entries:
            g = os.path.join(dst, 'gql', entry['name'])
            os.makedirs(g, exist_ok=True)
            open(os.path.join(g, 'schema.graphql'), 'w').write(entry['schema_src'])
            open(os.path.join(g, 'query.graphql'), 'w').write(entry['query_src'])
        shutil.copy(os.path.join(HERE, 'support', 'vsup.rs'), os.path.join(dst, 'src', 'vsup.rs'))
        shutil.copy(os.path.join(HERE, 'support', 'vchecks.rs'), os.path.join(dst, 'src', 'vchecks.rs'))
        names = ', '.join(rs_str(n) for n, _ in self.native)
        arms = '\n'.join(f'        {rs_str(n)} => Some({body}),' for n, body in self.native)
        lib = f'''#![allow(unused_imports, dead_code, non_snake_case, clippy::all)]
pub mod vsup;
pub mod vchecks;
use vsup::*;
use vchecks::*;

pub static WRONG_SEQ: [SV<'static>; 1] = [SV::int(1)];

/// custom scalar definitions used through `custom_scalars_module` (variant `opts`)
pub mod kg_scalars {{
{self.scalar_mod()}
}}

{"".join(self.mods)}
{extra_rs}

#[cfg(not(kani))]
pub const NATIVE_NAMES: &[&str] = &[{names}];

#[cfg(not(kani))]
pub fn native_run(name: &str, src: &mut BytesSrc) -> Option<(String, String, String)> {{
    match name {{
{arms}
        _ => None,
    }}
}}
'''
        open(os.path.join(dst, 'src', 'lib.rs'), 'w').write(lib)
        open(os.path.join(dst, 'src', 'main.rs'), 'w').write(MAIN_RS)
        json.dump(self.harnesses, open(os.path.join(dst, 'harnesses.json'), 'w'), indent=1)
