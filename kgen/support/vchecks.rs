//! Property-specific harness bodies shared by the generated K-gen harnesses.
#![allow(dead_code, clippy::all)]

use crate::vsup::*;
use serde::de::DeserializeOwned;
use serde::Serialize;

fn bytes_eq(a: &[u8], b: &[u8]) -> bool {
    if a.len() != b.len() {
        return false;
    }
    let mut i = 0;
    while i < a.len() {
        if a[i] != b[i] {
            return false;
        }
        i += 1;
    }
    true
}

#[derive(Debug, Clone, Copy, PartialEq, Eq)]
pub enum EnumVerdict {
    Ok,
    /// deserialization of a bare string failed
    Rejected,
    /// serialize(deserialize(s)) != s, or not a bare string
    NotIdentity,
    /// a schema value landed in `Other`, or a foreign string in a named variant
    WrongVariantClass,
}

/// Symbolic input string for an enum with the given schema values.
/// Either (near = true) a schema value with at most one edit - one byte
/// replaced, one byte appended or the last byte removed - which covers exact
/// values, case / underscore near-misses and keyword-escaped spellings, or
/// (near = false) a free ASCII string of at most `free_len` bytes (incl. empty).
pub fn enum_input<'a, S: Src, const N: usize>(s: &mut S, values: &[&str], buf: &'a mut [u8; N], free_len: usize) -> (&'a str, bool) {
    let near = s.bool();
    let mut len: usize;
    if near {
        let idx = s.below(values.len() as u8) as usize;
        let v = values[idx].as_bytes();
        len = v.len();
        let mut i = 0;
        while i < len {
            buf[i] = v[i];
            i += 1;
        }
        let edit = s.below(4);
        let b = s.byte() & 0x7f;
        match edit {
            0 => {}
            1 => {
                // replace one byte
                let p = s.below(len as u8) as usize;
                buf[p] = b;
            }
            2 => {
                // append one byte
                if len < N {
                    buf[len] = b;
                    len += 1;
                }
            }
            _ => {
                // drop the last byte
                if len > 0 {
                    len -= 1;
                }
            }
        }
    } else {
        let fl = if free_len < N { free_len } else { N };
        len = s.below(fl as u8 + 1) as usize;
        let mut i = 0;
        while i < fl {
            buf[i] = s.byte() & 0x7f;
            i += 1;
        }
    }
    (unsafe { core::str::from_utf8_unchecked(&buf[..len]) }, near)
}

fn is_value(s: &str, values: &[&str]) -> bool {
    let mut i = 0;
    while i < values.len() {
        if bytes_eq(values[i].as_bytes(), s.as_bytes()) {
            return true;
        }
        i += 1;
    }
    false
}

pub fn enum_check<T: DeserializeOwned + Serialize>(s: &str, values: &[&str], is_other: fn(&T) -> bool) -> EnumVerdict {
    let v = match T::deserialize(SV::str(s)) {
        Ok(v) => v,
        Err(_) => return EnumVerdict::Rejected,
    };
    let ident = matches!(v.serialize(CheckSer { exp: SV::str(s), strict: true }), Ok(true));
    let class_ok = is_other(&v) != is_value(s, values);
    core::mem::forget(v);
    if !ident {
        return EnumVerdict::NotIdentity;
    }
    if !class_ok {
        return EnumVerdict::WrongVariantClass;
    }
    EnumVerdict::Ok
}

/// every schema value deserializes to a named variant and different values to
/// different variants
pub fn enum_distinct<T: DeserializeOwned + PartialEq>(values: &[&str], is_other: fn(&T) -> bool) -> bool {
    let mut i = 0;
    while i < values.len() {
        let a = match T::deserialize(SV::str(values[i])) {
            Ok(a) => a,
            Err(_) => return false,
        };
        if is_other(&a) {
            return false;
        }
        let mut j = i + 1;
        while j < values.len() {
            let b = match T::deserialize(SV::str(values[j])) {
                Ok(b) => b,
                Err(_) => return false,
            };
            if a == b {
                return false;
            }
            core::mem::forget(b);
            j += 1;
        }
        core::mem::forget(a);
        i += 1;
    }
    true
}

#[cfg(not(kani))]
pub fn enum_check_native<T: DeserializeOwned + Serialize>(s: &str, values: &[&str], is_other: fn(&T) -> bool) -> (EnumVerdict, String) {
    let payload = serde_json::Value::String(s.to_owned());
    let v: T = match serde_json::from_value(payload.clone()) {
        Ok(v) => v,
        Err(e) => return (EnumVerdict::Rejected, format!("input={:?} rejected: {}", s, e)),
    };
    let out = serde_json::to_value(&v).unwrap();
    let detail = format!("input={:?} reserialized={} other={} is_schema_value={}", s, out, is_other(&v), is_value(s, values));
    if out != payload {
        return (EnumVerdict::NotIdentity, detail);
    }
    if is_other(&v) == is_value(s, values) {
        return (EnumVerdict::WrongVariantClass, detail);
    }
    (EnumVerdict::Ok, detail)
}
