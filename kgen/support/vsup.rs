//! Harness-side support for engine K-gen (see DESIGN.md section 4).
//!
//! Nothing in here is graphql-client code.  It provides
//!  * `Src`   - a source of choices: `KaniSrc` (symbolic, `kani::any`) or
//!              `BytesSrc` (concrete bytes: native differential runs, replay of
//!              Kani counterexamples);
//!  * `SV`    - a heap-free borrowed JSON value with a `Deserializer` impl that
//!              mirrors `impl Deserializer for &serde_json::Value`;
//!  * `CheckSer` - a heap-free `Serializer` that compares what is being
//!              serialized with the payload in lock-step (instead of
//!              `to_value` + comparison), modulo the differences the
//!              properties tolerate.
#![allow(dead_code, clippy::all)]

use serde::de::{self, DeserializeSeed, Deserializer, EnumAccess, MapAccess, SeqAccess, VariantAccess, Visitor};
use serde::ser::{self, Serialize};

// ------------------------------------------------------------------ choices

pub trait Src {
    fn byte(&mut self) -> u8;
    fn i64(&mut self) -> i64;
    fn f64(&mut self) -> f64;
    fn bool(&mut self) -> bool {
        self.byte() & 1 == 1
    }
    /// value in 0..n  (n >= 1)
    fn below(&mut self, n: u8) -> u8;
}

#[cfg(kani)]
pub struct KaniSrc;

#[cfg(kani)]
impl Src for KaniSrc {
    fn byte(&mut self) -> u8 {
        kani::any()
    }
    fn i64(&mut self) -> i64 {
        kani::any()
    }
    fn f64(&mut self) -> f64 {
        let f: f64 = kani::any();
        kani::assume(f.is_finite());
        f
    }
    fn bool(&mut self) -> bool {
        kani::any()
    }
    fn below(&mut self, n: u8) -> u8 {
        let v: u8 = kani::any();
        kani::assume(v < n);
        v
    }
}

/// Concrete choices.  The layout follows Kani's concrete playback: one entry
/// per `kani::any()` call, in call order, little-endian bytes.
pub struct BytesSrc {
    pub items: Vec<Vec<u8>>,
    pub pos: usize,
    /// set when a value violates the assumption the symbolic source makes
    pub vacuous: bool,
    /// fuzzing mode: out-of-range draws wrap instead of being vacuous
    pub wrap: bool,
}

impl BytesSrc {
    pub fn new(items: Vec<Vec<u8>>) -> Self {
        BytesSrc { items, pos: 0, vacuous: false, wrap: false }
    }
    fn take(&mut self) -> Vec<u8> {
        let v = self.items.get(self.pos).cloned().unwrap_or_default();
        self.pos += 1;
        v
    }
}

impl Src for BytesSrc {
    fn byte(&mut self) -> u8 {
        self.take().first().copied().unwrap_or(0)
    }
    fn i64(&mut self) -> i64 {
        let mut b = [0u8; 8];
        for (i, x) in self.take().iter().take(8).enumerate() {
            b[i] = *x;
        }
        i64::from_le_bytes(b)
    }
    fn f64(&mut self) -> f64 {
        let mut b = [0u8; 8];
        for (i, x) in self.take().iter().take(8).enumerate() {
            b[i] = *x;
        }
        let f = f64::from_le_bytes(b);
        if !f.is_finite() {
            if !self.wrap {
                self.vacuous = true;
            }
            return (self.pos as f64) * 0.25 - 1.0;
        }
        f
    }
    fn bool(&mut self) -> bool {
        self.byte() & 1 == 1
    }
    fn below(&mut self, n: u8) -> u8 {
        let v = self.byte();
        if v >= n {
            if !self.wrap {
                self.vacuous = true;
            }
            return v % n;
        }
        v
    }
}

/// A short symbolic ASCII string: up to `N` bytes in a caller-provided buffer.
pub fn sym_str<'a, S: Src, const N: usize>(s: &mut S, buf: &'a mut [u8; N]) -> &'a str {
    let len = s.below(N as u8 + 1) as usize;
    let mut i = 0;
    while i < N {
        let b = s.byte();
        // printable ASCII without the two characters JSON escapes, so that the
        // native differential run can print payloads verbatim
        buf[i] = if b < 0x80 { b } else { b & 0x7f };
        i += 1;
    }
    // all bytes < 0x80: valid UTF-8 by construction
    unsafe { core::str::from_utf8_unchecked(&buf[..len]) }
}

/// One of `values`, chosen symbolically and copied into `buf` (a single object, so the model
/// checker never sees a pointer that may refer to several different string literals).
pub fn pick_str<'a, S: Src, const N: usize>(s: &mut S, values: &[&str], buf: &'a mut [u8; N]) -> &'a str {
    let idx = s.below(values.len() as u8) as usize;
    let v = values[idx].as_bytes();
    let len = v.len();
    let mut i = 0;
    while i < N {
        if i < len {
            buf[i] = v[i];
        }
        i += 1;
    }
    unsafe { core::str::from_utf8_unchecked(&buf[..len]) }
}

/// like `pick_str`, but the last alternative is a free ASCII string of at most `F` bytes
pub fn pick_or_sym_str<'a, S: Src, const N: usize, const F: usize>(s: &mut S, values: &[&str], buf: &'a mut [u8; N]) -> &'a str {
    let idx = s.below(values.len() as u8) as usize;
    if idx + 1 < values.len() {
        let v = values[idx].as_bytes();
        let len = v.len();
        let mut i = 0;
        while i < N {
            if i < len {
                buf[i] = v[i];
            }
            i += 1;
        }
        unsafe { core::str::from_utf8_unchecked(&buf[..len]) }
    } else {
        let len = s.below(F as u8 + 1) as usize;
        let mut i = 0;
        while i < F {
            buf[i] = s.byte() & 0x7f;
            i += 1;
        }
        unsafe { core::str::from_utf8_unchecked(&buf[..len]) }
    }
}

// ------------------------------------------------------------------ SV

pub const K_ABSENT: u8 = 0;
pub const K_NULL: u8 = 1;
pub const K_BOOL: u8 = 2;
pub const K_I64: u8 = 3;
pub const K_F64: u8 = 4;
pub const K_STR: u8 = 5;
pub const K_SEQ: u8 = 6;
pub const K_MAP: u8 = 7;

/// A JSON value as a *flat* record: `kind` says which of the other members is
/// meaningful.  It is deliberately not a Rust enum: with overlapping variant
/// payloads CBMC has to treat every pointer read from a merged value as
/// possibly pointing into another variant's data.  Here the `seq` / `map`
/// pointers of a position are always the concrete arrays built for that
/// position and only `kind` (and scalars) are symbolic.
/// `K_ABSENT` is the placeholder for "key not present" inside `map` entries.
#[derive(Clone, Copy, Debug)]
pub struct SV<'a> {
    pub kind: u8,
    pub b: bool,
    pub i: i64,
    pub f: f64,
    pub s: &'a str,
    pub seq: &'a [SV<'a>],
    pub map: &'a [(&'a str, SV<'a>)],
}

pub const SV_BASE: SV<'static> = SV { kind: K_NULL, b: true, i: 7, f: 0.5, s: "x", seq: &[], map: &[] };

impl<'a> SV<'a> {
    pub const fn absent() -> Self {
        SV { kind: K_ABSENT, ..SV_BASE }
    }
    pub const fn null() -> Self {
        SV { kind: K_NULL, ..SV_BASE }
    }
    pub const fn bool(b: bool) -> Self {
        SV { kind: K_BOOL, b, ..SV_BASE }
    }
    pub const fn int(i: i64) -> Self {
        SV { kind: K_I64, i, ..SV_BASE }
    }
    pub const fn float(f: f64) -> Self {
        SV { kind: K_F64, f, ..SV_BASE }
    }
    pub const fn str(s: &'a str) -> Self {
        SV { kind: K_STR, b: true, i: 7, f: 0.5, s, seq: &[], map: &[] }
    }
    pub const fn seq(seq: &'a [SV<'a>]) -> Self {
        SV { kind: K_SEQ, b: true, i: 7, f: 0.5, s: "x", seq, map: &[] }
    }
    pub const fn map(map: &'a [(&'a str, SV<'a>)]) -> Self {
        SV { kind: K_MAP, b: true, i: 7, f: 0.5, s: "x", seq: &[], map }
    }
    pub fn is_absent(&self) -> bool {
        self.kind == K_ABSENT
    }
}

#[derive(Debug, Clone, Copy, PartialEq, Eq)]
pub struct E;

impl core::fmt::Display for E {
    fn fmt(&self, f: &mut core::fmt::Formatter<'_>) -> core::fmt::Result {
        f.write_str("E")
    }
}
impl std::error::Error for E {}
impl de::Error for E {
    fn custom<T: core::fmt::Display>(_msg: T) -> Self {
        E
    }
}
impl ser::Error for E {
    fn custom<T: core::fmt::Display>(_msg: T) -> Self {
        E
    }
}

macro_rules! number_methods {
    ($($m:ident)*) => {$(
        fn $m<V: Visitor<'de>>(self, visitor: V) -> Result<V::Value, E> {
            match self.kind {
                K_I64 => if self.i >= 0 { visitor.visit_u64(self.i as u64) } else { visitor.visit_i64(self.i) },
                K_F64 => visitor.visit_f64(self.f),
                _ => Err(E),
            }
        }
    )*};
}

impl<'de> Deserializer<'de> for SV<'de> {
    type Error = E;

    fn deserialize_any<V: Visitor<'de>>(self, visitor: V) -> Result<V::Value, E> {
        match self.kind {
            // a missing member: only `Option` (and ignored values) can absorb it
            K_ABSENT => Err(E),
            K_NULL => visitor.visit_unit(),
            K_BOOL => visitor.visit_bool(self.b),
            K_I64 => {
                if self.i >= 0 {
                    visitor.visit_u64(self.i as u64)
                } else {
                    visitor.visit_i64(self.i)
                }
            }
            K_F64 => visitor.visit_f64(self.f),
            K_STR => visitor.visit_borrowed_str(self.s),
            K_SEQ => visit_seq(self.seq, visitor),
            _ => visit_map(self.map, visitor),
        }
    }

    number_methods!(deserialize_i8 deserialize_i16 deserialize_i32 deserialize_i64
                    deserialize_u8 deserialize_u16 deserialize_u32 deserialize_u64
                    deserialize_f32 deserialize_f64);

    fn deserialize_bool<V: Visitor<'de>>(self, visitor: V) -> Result<V::Value, E> {
        match self.kind {
            K_BOOL => visitor.visit_bool(self.b),
            _ => Err(E),
        }
    }
    fn deserialize_char<V: Visitor<'de>>(self, visitor: V) -> Result<V::Value, E> {
        self.deserialize_string(visitor)
    }
    fn deserialize_str<V: Visitor<'de>>(self, visitor: V) -> Result<V::Value, E> {
        match self.kind {
            K_STR => visitor.visit_borrowed_str(self.s),
            _ => Err(E),
        }
    }
    fn deserialize_string<V: Visitor<'de>>(self, visitor: V) -> Result<V::Value, E> {
        self.deserialize_str(visitor)
    }
    fn deserialize_bytes<V: Visitor<'de>>(self, visitor: V) -> Result<V::Value, E> {
        match self.kind {
            K_STR => visitor.visit_borrowed_str(self.s),
            K_SEQ => visit_seq(self.seq, visitor),
            _ => Err(E),
        }
    }
    fn deserialize_byte_buf<V: Visitor<'de>>(self, visitor: V) -> Result<V::Value, E> {
        self.deserialize_bytes(visitor)
    }
    fn deserialize_option<V: Visitor<'de>>(self, visitor: V) -> Result<V::Value, E> {
        match self.kind {
            K_NULL | K_ABSENT => visitor.visit_none(),
            _ => visitor.visit_some(self),
        }
    }
    fn deserialize_unit<V: Visitor<'de>>(self, visitor: V) -> Result<V::Value, E> {
        match self.kind {
            K_NULL => visitor.visit_unit(),
            _ => Err(E),
        }
    }
    fn deserialize_unit_struct<V: Visitor<'de>>(self, _name: &'static str, visitor: V) -> Result<V::Value, E> {
        self.deserialize_unit(visitor)
    }
    fn deserialize_newtype_struct<V: Visitor<'de>>(self, _name: &'static str, visitor: V) -> Result<V::Value, E> {
        visitor.visit_newtype_struct(self)
    }
    fn deserialize_seq<V: Visitor<'de>>(self, visitor: V) -> Result<V::Value, E> {
        match self.kind {
            K_SEQ => visit_seq(self.seq, visitor),
            _ => Err(E),
        }
    }
    fn deserialize_tuple<V: Visitor<'de>>(self, _len: usize, visitor: V) -> Result<V::Value, E> {
        self.deserialize_seq(visitor)
    }
    fn deserialize_tuple_struct<V: Visitor<'de>>(self, _name: &'static str, _len: usize, visitor: V) -> Result<V::Value, E> {
        self.deserialize_seq(visitor)
    }
    fn deserialize_map<V: Visitor<'de>>(self, visitor: V) -> Result<V::Value, E> {
        match self.kind {
            K_MAP => visit_map(self.map, visitor),
            _ => Err(E),
        }
    }
    fn deserialize_struct<V: Visitor<'de>>(self, _name: &'static str, _fields: &'static [&'static str], visitor: V) -> Result<V::Value, E> {
        match self.kind {
            K_SEQ => visit_seq(self.seq, visitor),
            K_MAP => visit_map(self.map, visitor),
            _ => Err(E),
        }
    }
    fn deserialize_enum<V: Visitor<'de>>(self, _name: &'static str, _variants: &'static [&'static str], visitor: V) -> Result<V::Value, E> {
        match self.kind {
            K_MAP => {
                // serde_json: exactly one key
                let entries = self.map;
                let mut found: Option<(&'de str, SV<'de>)> = None;
                let mut count = 0usize;
                let mut j = 0;
                while j < entries.len() {
                    let (k, v) = entries[j];
                    j += 1;
                    if v.is_absent() {
                        continue;
                    }
                    count += 1;
                    if found.is_none() {
                        found = Some((k, v));
                    }
                }
                if count != 1 {
                    return Err(E);
                }
                let (k, v) = found.unwrap();
                visitor.visit_enum(EnumDe { variant: k, value: Some(v) })
            }
            K_STR => visitor.visit_enum(EnumDe { variant: self.s, value: None }),
            _ => Err(E),
        }
    }
    fn deserialize_identifier<V: Visitor<'de>>(self, visitor: V) -> Result<V::Value, E> {
        self.deserialize_str(visitor)
    }
    fn deserialize_ignored_any<V: Visitor<'de>>(self, visitor: V) -> Result<V::Value, E> {
        // as serde_json does: drop the value, report unit
        visitor.visit_unit()
    }
}

fn visit_seq<'de, V: Visitor<'de>>(items: &'de [SV<'de>], visitor: V) -> Result<V::Value, E> {
    let mut acc = SeqDe { items, pos: 0, ended: false };
    let v = visitor.visit_seq(&mut acc)?;
    // serde_json: trailing elements the visitor did not consume => invalid length
    if acc.ended || acc.pos >= items.len() {
        Ok(v)
    } else {
        Err(E)
    }
}

fn visit_map<'de, V: Visitor<'de>>(entries: &'de [(&'de str, SV<'de>)], visitor: V) -> Result<V::Value, E> {
    let mut acc = MapDe { entries, pos: 0, pending: None, ended: false };
    let v = visitor.visit_map(&mut acc)?;
    // serde_json: remaining entries => invalid length
    if acc.ended || acc.pos >= entries.len() {
        Ok(v)
    } else {
        Err(E)
    }
}

pub const SEQ_PREALLOC: usize = 4;

struct SeqDe<'de> {
    items: &'de [SV<'de>],
    pos: usize,
    ended: bool,
}

impl<'de> SeqAccess<'de> for SeqDe<'de> {
    type Error = E;
    fn next_element_seed<T: DeserializeSeed<'de>>(&mut self, seed: T) -> Result<Option<T::Value>, E> {
        // `pos` is advanced unconditionally so that it stays a constant in every unrolled
        // iteration (a conditional increment becomes an if-then-else term after the join and
        // every later buffer access turns into a symbolic-index access)
        let p = self.pos;
        self.pos = p + 1;
        if p < self.items.len() {
            seed.deserialize(self.items[p]).map(Some)
        } else {
            self.ended = true;
            Ok(None)
        }
    }
    fn size_hint(&self) -> Option<usize> {
        // serde uses the hint only to pre-allocate.  A *constant* keeps the capacity concrete, so
        // the model checker does not have to consider a reallocation at every push.
        Some(SEQ_PREALLOC)
    }
}

struct MapDe<'de> {
    entries: &'de [(&'de str, SV<'de>)],
    pos: usize,
    pending: Option<SV<'de>>,
    ended: bool,
}

impl<'de> MapAccess<'de> for MapDe<'de> {
    type Error = E;
    fn next_key_seed<K: DeserializeSeed<'de>>(&mut self, seed: K) -> Result<Option<K::Value>, E> {
        // Members whose value is absent are *presented* (so that positions and keys stay
        // concrete for the model checker) and behave like a missing member at the value level:
        // `Option` fields read `None`, ignored values are skipped, everything else fails exactly
        // where serde would report "missing field".  The native differential run checks this
        // modelling against real absent keys in serde_json.
        let p = self.pos;
        self.pos = p + 1;     // unconditional: see SeqDe
        if p < self.entries.len() {
            let (k, v) = self.entries[p];
            self.pending = Some(v);
            seed.deserialize(KeyDe(k)).map(Some)
        } else {
            self.ended = true;
            Ok(None)
        }
    }
    fn next_value_seed<T: DeserializeSeed<'de>>(&mut self, seed: T) -> Result<T::Value, E> {
        match self.pending.take() {
            Some(v) => seed.deserialize(v),
            None => Err(E),
        }
    }
}

struct KeyDe<'de>(&'de str);

impl<'de> Deserializer<'de> for KeyDe<'de> {
    type Error = E;
    fn deserialize_any<V: Visitor<'de>>(self, visitor: V) -> Result<V::Value, E> {
        visitor.visit_borrowed_str(self.0)
    }
    serde::forward_to_deserialize_any! {
        bool i8 i16 i32 i64 u8 u16 u32 u64 f32 f64 char str string bytes byte_buf option unit
        unit_struct newtype_struct seq tuple tuple_struct map struct enum identifier ignored_any
    }
}

struct EnumDe<'de> {
    variant: &'de str,
    value: Option<SV<'de>>,
}

impl<'de> EnumAccess<'de> for EnumDe<'de> {
    type Error = E;
    type Variant = VariantDe<'de>;
    fn variant_seed<V: DeserializeSeed<'de>>(self, seed: V) -> Result<(V::Value, VariantDe<'de>), E> {
        let v = seed.deserialize(KeyDe(self.variant))?;
        Ok((v, VariantDe { value: self.value }))
    }
}

struct VariantDe<'de> {
    value: Option<SV<'de>>,
}

impl<'de> VariantAccess<'de> for VariantDe<'de> {
    type Error = E;
    fn unit_variant(self) -> Result<(), E> {
        match self.value {
            None => Ok(()),
            Some(v) if v.kind == K_NULL => Ok(()),
            _ => Err(E),
        }
    }
    fn newtype_variant_seed<T: DeserializeSeed<'de>>(self, seed: T) -> Result<T::Value, E> {
        match self.value {
            Some(v) => seed.deserialize(v),
            None => Err(E),
        }
    }
    fn tuple_variant<V: Visitor<'de>>(self, _len: usize, visitor: V) -> Result<V::Value, E> {
        match self.value {
            Some(v) if v.kind == K_SEQ => visit_seq(v.seq, visitor),
            _ => Err(E),
        }
    }
    fn struct_variant<V: Visitor<'de>>(self, _fields: &'static [&'static str], visitor: V) -> Result<V::Value, E> {
        match self.value {
            Some(v) if v.kind == K_MAP => visit_map(v.map, visitor),
            _ => Err(E),
        }
    }
}

// ------------------------------------------------------------------ CheckSer

/// A `Serializer` that does not build anything: it walks the expected payload
/// `exp` in lock-step with the serialization calls and answers "does what is
/// being serialized render exactly this payload?".
///
/// `strict` (variables): exact equality.  Non-strict (responses) tolerates
/// null <-> absent at object members, ignorable payload keys (`__typename`,
/// `zz*`) and an integer payload rendered as the same float.  Key order is
/// irrelevant.
#[derive(Clone, Copy)]
pub struct CheckSer<'a> {
    pub exp: SV<'a>,
    pub strict: bool,
}

pub fn str_eq(a: &str, b: &str) -> bool {
    let (a, b) = (a.as_bytes(), b.as_bytes());
    if a.len() != b.len() {
        return false;
    }
    let mut i = 0;
    while i < a.len() {
        if a[i] != b[i] {
            return false;
        }
        i += 1;
    }
    true
}

/// keys that a payload may carry without the generated type storing them
pub fn ignorable_key(k: &str) -> bool {
    str_eq(k, "__typename") || (k.len() >= 2 && k.as_bytes()[0] == b'z' && k.as_bytes()[1] == b'z')
}

impl<'a> CheckSer<'a> {
    fn int(&self, signed: i64, unsigned: u64, is_unsigned: bool) -> bool {
        if self.exp.kind != K_I64 {
            return false;
        }
        let n = self.exp.i;
        if is_unsigned {
            n >= 0 && n as u64 == unsigned
        } else {
            n == signed
        }
    }
}

macro_rules! chk_int {
    ($($m:ident $t:ty, $unsigned:expr);*) => {$(
        fn $m(self, v: $t) -> Result<bool, E> { Ok(self.int(v as i64, v as u64, $unsigned)) }
    )*};
}

impl<'a> ser::Serializer for CheckSer<'a> {
    type Ok = bool;
    type Error = E;
    type SerializeSeq = CheckSeq<'a>;
    type SerializeTuple = CheckSeq<'a>;
    type SerializeTupleStruct = CheckSeq<'a>;
    type SerializeTupleVariant = CheckSeq<'a>;
    type SerializeMap = CheckMap<'a>;
    type SerializeStruct = CheckMap<'a>;
    type SerializeStructVariant = CheckMap<'a>;

    fn serialize_bool(self, v: bool) -> Result<bool, E> {
        Ok(self.exp.kind == K_BOOL && self.exp.b == v)
    }
    chk_int!(serialize_i8 i8, false; serialize_i16 i16, false; serialize_i32 i32, false; serialize_i64 i64, false;
             serialize_u8 u8, true; serialize_u16 u16, true; serialize_u32 u32, true; serialize_u64 u64, true);
    fn serialize_f32(self, v: f32) -> Result<bool, E> {
        self.serialize_f64(v as f64)
    }
    fn serialize_f64(self, v: f64) -> Result<bool, E> {
        Ok(match self.exp.kind {
            K_F64 => self.exp.f == v,
            K_I64 => !self.strict && self.exp.i as f64 == v,
            _ => false,
        })
    }
    fn serialize_char(self, _v: char) -> Result<bool, E> {
        Ok(false)
    }
    fn serialize_str(self, v: &str) -> Result<bool, E> {
        Ok(self.exp.kind == K_STR && str_eq(self.exp.s, v))
    }
    fn serialize_bytes(self, _v: &[u8]) -> Result<bool, E> {
        Ok(false)
    }
    fn serialize_none(self) -> Result<bool, E> {
        Ok(match self.exp.kind {
            K_NULL => true,
            K_ABSENT => !self.strict,
            _ => false,
        })
    }
    fn serialize_some<T: ?Sized + Serialize>(self, value: &T) -> Result<bool, E> {
        value.serialize(self)
    }
    fn serialize_unit(self) -> Result<bool, E> {
        Ok(self.exp.kind == K_NULL)
    }
    fn serialize_unit_struct(self, _name: &'static str) -> Result<bool, E> {
        Ok(self.exp.kind == K_NULL)
    }
    fn serialize_unit_variant(self, _name: &'static str, _idx: u32, variant: &'static str) -> Result<bool, E> {
        Ok(self.exp.kind == K_STR && str_eq(self.exp.s, variant))
    }
    fn serialize_newtype_struct<T: ?Sized + Serialize>(self, _name: &'static str, value: &T) -> Result<bool, E> {
        value.serialize(self)
    }
    fn serialize_newtype_variant<T: ?Sized + Serialize>(self, _name: &'static str, _idx: u32, variant: &'static str, value: &T) -> Result<bool, E> {
        // externally tagged: an object with exactly one member, keyed by the variant
        if self.exp.kind != K_MAP {
            return Ok(false);
        }
        let entries = self.exp.map;
        let mut count = 0usize;
        let mut found: Option<SV<'a>> = None;
        let mut j = 0;
        while j < entries.len() {
            let (k, v) = entries[j];
            if !v.is_absent() {
                count += 1;
                if str_eq(k, variant) {
                    found = Some(v);
                }
            }
            j += 1;
        }
        match found {
            Some(v) if count == 1 => value.serialize(CheckSer { exp: v, strict: self.strict }),
            _ => Ok(false),
        }
    }
    fn serialize_seq(self, _len: Option<usize>) -> Result<CheckSeq<'a>, E> {
        Ok(CheckSeq { items: self.exp.seq, pos: 0, ok: self.exp.kind == K_SEQ, strict: self.strict })
    }
    fn serialize_tuple(self, len: usize) -> Result<CheckSeq<'a>, E> {
        self.serialize_seq(Some(len))
    }
    fn serialize_tuple_struct(self, _name: &'static str, len: usize) -> Result<CheckSeq<'a>, E> {
        self.serialize_seq(Some(len))
    }
    fn serialize_tuple_variant(self, _name: &'static str, _idx: u32, _variant: &'static str, _len: usize) -> Result<CheckSeq<'a>, E> {
        Err(E)
    }
    fn serialize_map(self, _len: Option<usize>) -> Result<CheckMap<'a>, E> {
        self.serialize_struct("", 0)
    }
    fn serialize_struct(self, _name: &'static str, _len: usize) -> Result<CheckMap<'a>, E> {
        Ok(CheckMap { entries: self.exp.map, seen: 0, ok: self.exp.kind == K_MAP, strict: self.strict })
    }
    fn serialize_struct_variant(self, _name: &'static str, _idx: u32, _variant: &'static str, _len: usize) -> Result<CheckMap<'a>, E> {
        Err(E)
    }
}

pub struct CheckSeq<'a> {
    items: &'a [SV<'a>],
    pos: usize,
    ok: bool,
    strict: bool,
}

impl<'a> CheckSeq<'a> {
    fn elem<T: ?Sized + Serialize>(&mut self, value: &T) -> Result<(), E> {
        if self.pos < self.items.len() {
            let r = value.serialize(CheckSer { exp: self.items[self.pos], strict: self.strict })?;
            self.ok = self.ok && r;
        } else {
            self.ok = false;
        }
        self.pos += 1;
        Ok(())
    }
    fn fin(self) -> Result<bool, E> {
        Ok(self.ok && self.pos == self.items.len())
    }
}

impl<'a> ser::SerializeSeq for CheckSeq<'a> {
    type Ok = bool;
    type Error = E;
    fn serialize_element<T: ?Sized + Serialize>(&mut self, value: &T) -> Result<(), E> {
        self.elem(value)
    }
    fn end(self) -> Result<bool, E> {
        self.fin()
    }
}
impl<'a> ser::SerializeTuple for CheckSeq<'a> {
    type Ok = bool;
    type Error = E;
    fn serialize_element<T: ?Sized + Serialize>(&mut self, value: &T) -> Result<(), E> {
        self.elem(value)
    }
    fn end(self) -> Result<bool, E> {
        self.fin()
    }
}
impl<'a> ser::SerializeTupleStruct for CheckSeq<'a> {
    type Ok = bool;
    type Error = E;
    fn serialize_field<T: ?Sized + Serialize>(&mut self, value: &T) -> Result<(), E> {
        self.elem(value)
    }
    fn end(self) -> Result<bool, E> {
        self.fin()
    }
}
impl<'a> ser::SerializeTupleVariant for CheckSeq<'a> {
    type Ok = bool;
    type Error = E;
    fn serialize_field<T: ?Sized + Serialize>(&mut self, value: &T) -> Result<(), E> {
        self.elem(value)
    }
    fn end(self) -> Result<bool, E> {
        self.fin()
    }
}

pub struct CheckMap<'a> {
    entries: &'a [(&'a str, SV<'a>)],
    /// bit j set: payload entry j has been rendered
    seen: u32,
    ok: bool,
    strict: bool,
}

impl<'a> CheckMap<'a> {
    fn find(&self, key: &str) -> Option<usize> {
        let mut j = 0;
        while j < self.entries.len() {
            if !self.entries[j].1.is_absent() && str_eq(self.entries[j].0, key) {
                return Some(j);
            }
            j += 1;
        }
        None
    }
    fn field<T: ?Sized + Serialize>(&mut self, key: &'static str, value: &T) -> Result<(), E> {
        match self.find(key) {
            Some(j) => {
                let bit = 1u32 << (j as u32 & 31);
                if self.seen & bit != 0 {
                    // the same key rendered twice
                    self.ok = false;
                }
                self.seen |= bit;
                let r = value.serialize(CheckSer { exp: self.entries[j].1, strict: self.strict })?;
                self.ok = self.ok && r;
            }
            None => {
                // rendered although the payload has no such member: only an explicit null, non-strict
                let r = value.serialize(CheckSer { exp: SV::absent(), strict: self.strict })?;
                self.ok = self.ok && r;
            }
        }
        Ok(())
    }
    fn skipped(&mut self, key: &'static str) {
        // member omitted by the serializer: the payload must not carry a value for it
        if let Some(j) = self.find(key) {
            if self.strict || self.entries[j].1.kind != K_NULL {
                self.ok = false;
            }
            self.seen |= 1u32 << (j as u32 & 31);
        }
    }
    fn fin(self) -> Result<bool, E> {
        // every payload member must have been rendered, except tolerable ones
        let mut ok = self.ok;
        let mut j = 0;
        while j < self.entries.len() {
            let (k, v) = self.entries[j];
            let rendered = self.seen & (1u32 << (j as u32 & 31)) != 0;
            let optional = v.is_absent() || (!self.strict && (v.kind == K_NULL || ignorable_key(k)));
            if !rendered && !optional {
                ok = false;
            }
            j += 1;
        }
        Ok(ok)
    }
}

impl<'a> ser::SerializeMap for CheckMap<'a> {
    type Ok = bool;
    type Error = E;
    fn serialize_key<T: ?Sized + Serialize>(&mut self, _key: &T) -> Result<(), E> {
        Err(E)
    }
    fn serialize_value<T: ?Sized + Serialize>(&mut self, _value: &T) -> Result<(), E> {
        Err(E)
    }
    fn end(self) -> Result<bool, E> {
        self.fin()
    }
}
impl<'a> ser::SerializeStruct for CheckMap<'a> {
    type Ok = bool;
    type Error = E;
    fn serialize_field<T: ?Sized + Serialize>(&mut self, key: &'static str, value: &T) -> Result<(), E> {
        self.field(key, value)
    }
    fn skip_field(&mut self, key: &'static str) -> Result<(), E> {
        self.skipped(key);
        Ok(())
    }
    fn end(self) -> Result<bool, E> {
        self.fin()
    }
}
impl<'a> ser::SerializeStructVariant for CheckMap<'a> {
    type Ok = bool;
    type Error = E;
    fn serialize_field<T: ?Sized + Serialize>(&mut self, key: &'static str, value: &T) -> Result<(), E> {
        self.field(key, value)
    }
    fn end(self) -> Result<bool, E> {
        self.fin()
    }
}

// ------------------------------------------------------------------ verdicts

#[derive(Debug, Clone, Copy, PartialEq, Eq)]
pub enum Verdict {
    Ok,
    /// the type accepted a payload the oracle calls non-conforming
    AcceptedInvalid,
    /// the type rejected a payload the oracle calls conforming
    RejectedValid,
    /// re-serialization differs from the payload
    Lossy,
    /// native only: the SV model and serde_json disagree (harness bug)
    ModelMismatch,
}

/// Deserialize `sv` into `T`; compare accept/reject with the oracle; on accept
/// re-serialize and compare with the payload.
pub fn check_roundtrip<'a, T>(sv: SV<'a>, conforms: bool, strict: bool) -> Verdict
where
    T: serde::Deserialize<'a> + Serialize,
{
    match T::deserialize(sv) {
        Ok(v) => {
            if !conforms {
                core::mem::forget(v);
                return Verdict::AcceptedInvalid;
            }
            let ok = matches!(v.serialize(CheckSer { exp: sv, strict }), Ok(true));
            core::mem::forget(v);
            if ok {
                Verdict::Ok
            } else {
                Verdict::Lossy
            }
        }
        Err(_) => {
            if conforms {
                Verdict::RejectedValid
            } else {
                Verdict::Ok
            }
        }
    }
}

// ------------------------------------------------------------------ native side

#[cfg(not(kani))]
pub fn sv_to_json(sv: &SV<'_>) -> serde_json::Value {
    use serde_json::Value;
    match sv.kind {
        K_ABSENT | K_NULL => Value::Null,
        K_BOOL => Value::Bool(sv.b),
        K_I64 => Value::from(sv.i),
        K_F64 => serde_json::Number::from_f64(sv.f).map(Value::Number).unwrap_or(Value::Null),
        K_STR => Value::String(sv.s.to_owned()),
        K_SEQ => Value::Array(sv.seq.iter().map(sv_to_json).collect()),
        _ => {
            let mut m = serde_json::Map::new();
            for (k, v) in sv.map {
                if v.is_absent() {
                    continue;
                }
                m.insert((*k).to_owned(), sv_to_json(v));
            }
            Value::Object(m)
        }
    }
}

/// JSON comparison "re-serialized == payload" with the same tolerances as
/// `ev_matches`, on real `serde_json::Value`s (native replay oracle).
#[cfg(not(kani))]
pub fn json_matches(out: &serde_json::Value, payload: &serde_json::Value, strict: bool) -> bool {
    use serde_json::Value;
    match (out, payload) {
        (Value::Object(o), Value::Object(p)) => {
            for (k, pv) in p {
                match o.get(k) {
                    Some(ov) => {
                        if !json_matches(ov, pv, strict) {
                            return false;
                        }
                    }
                    None => {
                        if strict || !(pv.is_null() || ignorable_key(k)) {
                            return false;
                        }
                    }
                }
            }
            for (k, ov) in o {
                if !p.contains_key(k) && (strict || !ov.is_null()) {
                    return false;
                }
            }
            true
        }
        (Value::Array(o), Value::Array(p)) => o.len() == p.len() && o.iter().zip(p).all(|(a, b)| json_matches(a, b, strict)),
        (Value::Number(a), Value::Number(b)) => {
            if a == b {
                return true;
            }
            !strict && a.as_f64() == b.as_f64()
        }
        (a, b) => a == b,
    }
}

/// Native twin of `check_roundtrip` through the real `serde_json` value path;
/// also reports when the SV model and serde_json disagree.
#[cfg(not(kani))]
pub fn check_roundtrip_native<T>(sv: SV<'_>, conforms: bool, strict: bool) -> (Verdict, String)
where
    T: serde::de::DeserializeOwned + Serialize,
{
    let payload = sv_to_json(&sv);
    let model = {
        // the model needs a 'static-free deserialize: go through an owned copy
        let txt = serde_json::to_string(&payload).unwrap();
        txt
    };
    let real = serde_json::from_value::<T>(payload.clone());
    let verdict = match &real {
        Ok(v) => {
            if !conforms {
                Verdict::AcceptedInvalid
            } else {
                let out = serde_json::to_value(v).unwrap();
                if json_matches(&out, &payload, strict) {
                    Verdict::Ok
                } else {
                    Verdict::Lossy
                }
            }
        }
        Err(_) => {
            if conforms {
                Verdict::RejectedValid
            } else {
                Verdict::Ok
            }
        }
    };
    let detail = match &real {
        Ok(v) => format!("payload={} conforms={} accepted reserialized={}", model, conforms, serde_json::to_string(v).unwrap()),
        Err(e) => format!("payload={} conforms={} rejected: {}", model, conforms, e),
    };
    (verdict, detail)
}
