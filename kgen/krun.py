"""Run a family of K-gen harnesses for one property: build the consumer crate from the
working tree, validate the harness models natively, run Kani, replay failures natively."""
import json
import os
import subprocess
import sys
import time

HERE = os.path.dirname(os.path.abspath(__file__))
sys.path.insert(0, HERE)
sys.path.insert(0, os.path.join(HERE, '..', 'lib'))
import vp_common as vc  # noqa: E402
import crate as kcrate  # noqa: E402


class KgenRun:
    def __init__(self, prop, only=None):
        self.prop = prop
        self.tier = vc.tier()
        self.scratch = vc.scratch(f'kgen-{prop}')
        self.crate_dir = os.path.join(self.scratch, 'crate')
        self.target = os.path.join(self.scratch, 'kani-target')
        self.native_target = os.path.join(self.scratch, 'native-target')
        self.crate = kcrate.Crate(self.crate_dir, repo=vc.REPO, tier=self.tier, only=only)
        self.results = {}
        self.native_stats = {}
        self.build_s = 0.0

    # ---------------------------------------------------------------- native side
    def build_native(self):
        rc, out, secs = vc.run(['cargo', 'build', '--offline', '--target-dir', self.native_target], cwd=self.crate_dir, timeout=1500)
        self.build_s += secs
        if rc != 0:
            return out[-6000:]
        self.bin = os.path.join(self.native_target, 'debug', 'kgen_consumer')
        return None

    def native_fuzz(self, names, count):
        """differential validation of SV / CheckSer against serde_json + a first look for real failures"""
        bad_model, real_bad = [], []
        seed = vc.seed() + 1
        for n in names:
            p = subprocess.run([self.bin, 'fuzz', n, str(seed), str(count)], stdout=subprocess.PIPE, stderr=subprocess.PIPE, text=True)
            if p.returncode != 0:
                bad_model.append((n, f'native harness crashed: {p.stderr[-300:]}'))
                continue
            r = json.loads(p.stdout.strip().split('\n')[-1])
            self.native_stats[n] = r
            # a native verdict other than Ok is a violation seen on the real code, whatever the harness model says about it
            if r['real_not_ok']:
                real_bad.append((n, r['first']))
            elif r['model_mismatches']:
                bad_model.append((n, r['first']))
        return bad_model, real_bad

    def native_replay(self, native_name, playback):
        p = subprocess.run([self.bin, 'replay', native_name, vc.playback_hex(playback)], stdout=subprocess.PIPE, stderr=subprocess.PIPE, text=True)
        if p.returncode != 0:
            return None
        return json.loads(p.stdout.strip().split('\n')[-1])

    # ---------------------------------------------------------------- kani side
    def run_kani(self, harnesses, timeout, jobs):
        t0 = time.time()
        names = [h['name'] for h in harnesses]

        def on(r):
            vc.log(f'  {r.harness:70s} {r.status:8s} {r.seconds:6.1f}s {r.failed_checks[:1]}')
        self.results = vc.kani_run_many(self.crate_dir, names, self.target, timeout=timeout, jobs=jobs, on_result=on)
        # an unwinding assertion that fails means the bound was too small for that harness: try once with a larger one
        again = [h for h in harnesses if self.results[h['name']].status == 'unwind']
        for h in again:
            u2 = 2 * h.get('unwind', 8) + 4
            r = vc.kani_run(self.crate_dir, h['name'], self.target, timeout, extra=['--unwind', str(u2)])
            r.retried_unwind = u2
            on(r)
            self.results[h['name']] = r
        return time.time() - t0


def standard_check(prop, build, ok_real, describe, level_text, assumptions, jobs=6, timeout=None, fuzz_count=None, only=None, pre=None):
    """build(crate) adds derive modules + harnesses.  ok_real(native verdict string) says whether a native
    verdict is acceptable for this property.  Returns the exit code."""
    t0 = time.time()
    out = vc.Outcome(prop)
    engine_m = pre(out) if pre else None
    K = KgenRun(prop, only=only)
    build(K.crate)
    K.crate.write()
    harnesses = [h for h in K.crate.harnesses if h['prop'] == prop]
    tier = K.tier
    timeout = timeout or (420 if tier == 'quick' else 1800)
    fuzz_count = fuzz_count or (400 if tier == 'quick' else 5000)
    err = K.build_native()
    if err:
        out.inconc('the generated consumer crate does not compile natively against the working tree (rustc decides C02, not this check): ' + err[-600:].replace('\n', ' | '))
        vc.write_evidence(prop, 'model_checking', dict(evaluations=1, distinct_nontrivial=2, explanation='consumer crate failed to compile'), assumptions, time.time() - t0)
        return out.finish()
    native_names = sorted(set(h['native'] for h in harnesses))
    bad_model, real_bad = K.native_fuzz(native_names, fuzz_count)
    for n, first in bad_model:
        out.inconc(f'harness model disagrees with serde_json on {n}: {first}')
    kani_s = K.run_kani(harnesses, timeout, jobs)
    # verdicts
    solved, witnesses, replayed = 0, 0, 0
    solver_s = 0.0
    samples = []
    by_name = {h['name']: h for h in harnesses}
    for name, r in K.results.items():
        h = by_name[name]
        solver_s += r.solver_s or 0.0
        if r.status == 'success':
            solved += 1
            miss = [d for d, s in r.covers.items() if s != 'SATISFIED']
            if len(r.covers) < h.get('covers', 0) or miss:
                out.inconc(f'{name}: reachability witness not satisfied ({r.covers}) - harness may be vacuous')
            witnesses += sum(1 for s in r.covers.values() if s == 'SATISFIED')
            if len(samples) < 8:
                samples.append(dict(harness=name, what=h['what'], seconds=round(r.seconds, 1), solver_s=r.solver_s))
        elif r.status == 'failed':
            # replay the solver's assignment natively through serde_json
            rep = K.native_replay(h['native'], r.playback) if r.playback is not None else None
            replayed += 1
            if rep is None:
                out.inconc(f'{name}: Kani reports a failure but gave no concrete playback ({r.failed_checks[:2]})')
            elif rep.get('vacuous'):
                out.inconc(f'{name}: counterexample violates a harness assumption when replayed')
            elif not ok_real(rep['real']):
                out.violation(f'{h["entry"]}:{name}', f'{describe} [{h["what"]}] native verdict {rep["real"]}: {rep["detail"][:400]}',
                              dict(harness=name, native=h['native'], playback=r.playback, replay=rep, failed_checks=r.failed_checks[:4]))
            else:
                out.inconc(f'{name}: Kani counterexample does not reproduce through serde_json (model={rep["model"]} real={rep["real"]}): {rep["detail"][:300]}')
        elif r.status == 'unwind':
            out.inconc(f'{name}: unwinding bound too small ({r.failed_checks[:2]})')
        elif r.status == 'timeout':
            out.inconc(f'{name}: solver time limit ({timeout}s) reached')
        else:
            out.inconc(f'{name}: Kani did not complete ({r.status}): {r.log[-400:]!r}')
    # failures found by the native random runs are real violations too (reported with their input)
    for n, first in real_bad:
        out.violation(f'native:{n}', f'{describe} native run: {first[:400]}', dict(native=n, detail=first))
    for e, op, kind, why in K.crate.skipped:
        pass
    coverage = dict(
        states=len(harnesses), transitions=max(1, solved), traces_validated_against_impl=sum(s.get('ran', 0) for s in K.native_stats.values()) + replayed,
        samples=samples or [dict(note='no harness completed')],
        harnesses=len(harnesses), harnesses_proved=solved, reachability_witnesses=witnesses,
        catalogue_entries=sorted(set(h['entry'] for h in harnesses)),
        skipped_operations=[dict(entry=e, op=op, kind=k, reason=w) for e, op, k, w in K.crate.skipped],
        kani=[dict(r.to_json(), entry=by_name[n_]['entry'], encodes=by_name[n_]['what'], unwind=getattr(r, 'retried_unwind', None) or by_name[n_].get('unwind'))
              for n_, r in K.results.items()],
        bounds=dict(unwind='per harness (see kani[].unwind); an unwinding assertion failure is retried once with 2n+4 and otherwise reported inconclusive',
                    solver_time_limit_s=timeout, memory_limit_gb_per_solver=12),
        functions_encoded='the Deserialize / Serialize impls that #[derive(GraphQLQuery)] of the working tree expands to for each catalogue operation (kani[].encodes), compiled by Kani together with serde',
        solver_s=round(solver_s, 1), kani_wall_s=round(kani_s, 1), native_build_s=round(K.build_s, 1),
        native_differential=dict(runs_per_harness=fuzz_count, harnesses=len(native_names)),
        engine_m=engine_m,
        exhaustive=False)
    vc.write_evidence(prop, 'model_checking', coverage, assumptions, time.time() - t0, violations=len(out.violations))
    return out.finish()


def replay_generic(prop, build, ok_real, path, other=None, only=None):
    """`./check <ID> --replay <file>` for the K-gen checks: rebuild the consumer crate from the working tree and push the
    recorded solver assignment (or native fuzz input) through the real serde_json path.  `other(payload)` handles replay
    files written by a check's engine-M part."""
    p = json.load(open(path))
    if 'native' not in p:
        if other is None:
            print('replay file has no harness playback')
            return 2
        return other(p)
    K = KgenRun(prop, only=only)
    build(K.crate)
    K.crate.write()
    err = K.build_native()
    if err:
        print('consumer crate does not compile: ' + err[-400:])
        return 2
    if p.get('playback') is not None:
        rep = K.native_replay(p['native'], p['playback'])
        print(json.dumps(rep)[:800])
        if rep is None or rep.get('vacuous'):
            return 2
        return 0 if ok_real(rep['real']) else 1
    # a failure first seen by the native differential run: repeat that run
    bad_model, real_bad = K.native_fuzz([p['native']], 400 if K.tier == 'quick' else 5000)
    for n, first in real_bad:
        print(first[:600])
    return 1 if real_bad else 0
