#!/usr/bin/env python3
"""Confirm a seeded change (suite passes with it, demo fails with / passes without) and run checks against it.

usage: verify_mutant.py <dir with patch.diff, demo.sh, NOTES.md> <name e.g. C10-a> <property> [more properties to run ...]
Writes /verif/seeded/<name>/ (patch.diff, demo files, meta.json).  Uses a scratch worktree of /repo, removed afterwards.
"""
import json
import os
import shutil
import subprocess
import sys
import time

src, name, props = sys.argv[1], sys.argv[2], sys.argv[3:]
W = f'/tmp/seedwt-{name}'
if os.path.realpath(src) == os.path.realpath(f'/verif/seeded/{name}'):
    # re-verification of an already kept change: work from a staged copy (the destination is rewritten below)
    import tempfile
    stage = tempfile.mkdtemp(prefix='seedsrc-')
    shutil.copytree(src, os.path.join(stage, name))
    src = os.path.join(stage, name)
    if not props:
        props = list(json.load(open(os.path.join(src, 'meta.json'))).get('checks', {}).keys())
ENV = dict(os.environ, CARGO_NET_OFFLINE='true')


def sh(cmd, cwd=None, timeout=3600, env=None):
    p = subprocess.run(cmd, shell=True, cwd=cwd, stdout=subprocess.PIPE, stderr=subprocess.STDOUT, text=True, timeout=timeout, env=env or ENV)
    return p.returncode, p.stdout


subprocess.run(f'git -C /repo worktree remove --force {W}', shell=True, capture_output=True)
rc, out = sh(f'git -C /repo worktree add --detach {W} HEAD')
meta = dict(name=name, property=props[0], base_commit=subprocess.run('git -C /repo rev-parse --short HEAD', shell=True, capture_output=True, text=True).stdout.strip(), ran=[])
try:
    shutil.copytree(src, f'{W}/_mutant')
    demo = 'bash _mutant/demo.sh'
    rc0, o0 = sh(demo, cwd=W)
    meta['demo_without_change'] = 'pass' if rc0 == 0 else f'FAIL rc={rc0}'
    meta['ran'].append(f'{demo} (unchanged tree): rc={rc0}')
    rc, o = sh('git apply _mutant/patch.diff', cwd=W)
    meta['patch_applies'] = rc == 0
    if rc != 0:
        meta['note'] = 'patch does not apply to the current /repo HEAD: ' + o[-300:]
    else:
        rc1, o1 = sh('cargo test --workspace --no-fail-fast --offline 2>&1 | grep -E "^test result|^error" ', cwd=W)
        passed = sum(int(l.split()[3]) for l in o1.splitlines() if l.startswith('test result'))
        failed = sum(int(l.split()[5]) for l in o1.splitlines() if l.startswith('test result'))
        meta['suite_with_change'] = dict(passed=passed, failed=failed, compile_error='error' in o1)
        meta['ran'].append(f'cargo test --workspace --no-fail-fast --offline (with change): passed={passed} failed={failed}')
        rc2, o2 = sh(demo, cwd=W)
        meta['demo_with_change'] = 'fail' if rc2 != 0 else 'PASSES (demo does not detect the change)'
        meta['ran'].append(f'{demo} (with change): rc={rc2}')
        meta['confirmed'] = rc0 == 0 and rc2 != 0 and failed == 0 and passed >= 59 and 'error' not in o1
        shutil.rmtree(f'{W}/_mutant', ignore_errors=True)
        checks = {}
        for p in props:
            t0 = time.time()
            rcx, ox = sh(f'./check {p} --tier quick', cwd='/verif', env=dict(ENV, VERIF_REPO=W, VERIF_NO_EVIDENCE='1'), timeout=5400)
            verdicts = [l for l in ox.splitlines() if l.startswith(('VIOLATION', 'OK ', 'INCONCLUSIVE', 'KNOWN-FINDING'))]
            detail = [l for l in ox.splitlines() if l.startswith('  ') and ' success ' not in l]
            lines = verdicts[:8] + detail[:6]
            checks[p] = dict(exit=rcx, seconds=round(time.time() - t0), lines=[l[:300] for l in lines])
            meta['ran'].append(f'VERIF_REPO={W} ./check {p} --tier quick: exit {rcx}')
        meta['checks'] = checks
    dst = f'/verif/seeded/{name}'
    if os.path.exists(dst):
        shutil.rmtree(dst)
    shutil.copytree(src, dst)
    notes = os.path.join(dst, 'NOTES.md')
    meta['needs_to_manifest'] = open(notes).read()[:1500] if os.path.exists(notes) else ''
    for junk in ('suite_with_change.log', 'suite_clean.log', 'demo_with_change.log', 'demo_without_change.log', 'demo_mutant.log', 'demo_clean.log', 'full_suite_mutant.log'):
        try:
            os.unlink(os.path.join(dst, junk))
        except OSError:
            pass
    json.dump(meta, open(os.path.join(dst, 'meta.json'), 'w'), indent=1)
    print(json.dumps({k: meta[k] for k in meta if k not in ('needs_to_manifest',)}, indent=1))
finally:
    subprocess.run(f'git -C /repo worktree remove --force {W}', shell=True, capture_output=True)
    shutil.rmtree(W, ignore_errors=True)
