#!/bin/bash
# Re-verify every kept seeded change against the current /repo HEAD and the current checks (sequential; hours).
# usage: dev/regress_all.sh [names...]   (default: all of seeded/*/)
cd /verif
names="$@"
[ -z "$names" ] && names=$(ls -d seeded/*/ | xargs -n1 basename | grep -v '^_')
for n in $names; do
  python3 dev/verify_mutant.py seeded/$n $n > /tmp/regress_$n.log 2>&1
  echo "$n $(python3 -c "import json;m=json.load(open('seeded/$n/meta.json'));print(m.get('confirmed'), {k:v['exit'] for k,v in (m.get('checks') or {}).items()})")"
done
python3 dev/seeded_table.py
