#!/usr/bin/env python3
"""Regenerate seeded/README.md from seeded/*/meta.json."""
import glob
import json
import os

HERE = os.path.dirname(os.path.abspath(__file__))
root = os.path.join(HERE, '..', 'seeded')
rows = []
for mp in sorted(glob.glob(os.path.join(root, '*', 'meta.json'))):
    m = json.load(open(mp))
    name = m['name']
    notes = (m.get('needs_to_manifest') or '').strip().splitlines()
    title = next((l.lstrip('# ').strip() for l in notes if l.startswith('#')), '')
    title = m.get('title') or title
    checks = m.get('checks') or {}
    verdicts = []
    for prop, v in checks.items():
        first = next((l for l in v.get('lines', []) if l.startswith('VIOLATION')), '')
        role = first.split('replay=')[-1].split('/')[-1].replace('.json', '') if first else ''
        verdicts.append(f"{prop}: {'**detected**' if v['exit'] == 1 else 'inconclusive (exit 2)' if v['exit'] == 2 else 'missed (exit 0)'}"
                        + (f' `{role}`' if role else '') + f" ({v['seconds']} s)")
    rows.append((name, m.get('property', ''), 'yes' if m.get('confirmed') else 'NO', m.get('base_commit', ''), title[:110], '; '.join(verdicts), m.get('remark', '')))
with open(os.path.join(root, 'README.md'), 'w') as f:
    f.write('# Seeded changes\n\nEach directory holds `patch.diff` (applies to the /repo commit named in `meta.json`), the demonstration files the author of the\n'
            'change supplied (`demo.sh` fails with the change and passes without), `NOTES.md` (what was changed and what it needs to manifest) and\n'
            '`meta.json` (what `dev/verify_mutant.py` ran and saw: suite result with the change, demo with / without, the quick check of the property\n'
            'run with `VERIF_REPO=<scratch worktree with the change>`).  `patch.original.diff`, where present, is the change as written against an\n'
            'older /repo commit, before it was rebased over a later `fix:` commit.\n\n'
            '| change | property | confirmed | base | what | quick check against it | remark |\n|---|---|---|---|---|---|---|\n')
    for r in rows:
        f.write('| ' + ' | '.join(str(x).replace('|', '\\|') for x in r) + ' |\n')
print(f'{len(rows)} rows')
