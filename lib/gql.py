"""Minimal GraphQL SDL / query parser used by the verification machinery.

This is the *oracle side*: it is written from the GraphQL specification and does
not share code with graphql-client.  It covers the subset that the catalogue
uses (type / interface / union / enum / input / scalar definitions, `schema {}`
blocks, `extend type`, directives with arguments, descriptions; operations with
variables and defaults, fields with aliases and arguments, inline fragments,
fragment spreads, fragment definitions).
"""
import re
from dataclasses import dataclass, field
from typing import List, Optional, Dict, Any

TOKEN_RE = re.compile(r'''
    (?P<ws>[\s,﻿]+)
  | (?P<comment>\#[^\n]*)
  | (?P<blockstr>"""(?:\\"""|[^"]|"(?!""))*""")
  | (?P<str>"(?:\\.|[^"\\\n])*")
  | (?P<spread>\.\.\.)
  | (?P<name>[_A-Za-z][_0-9A-Za-z]*)
  | (?P<float>-?(?:0|[1-9][0-9]*)(?:\.[0-9]+(?:[eE][+-]?[0-9]+)?|[eE][+-]?[0-9]+))
  | (?P<int>-?(?:0|[1-9][0-9]*))
  | (?P<punct>[!$&()\[\]{}:=@|])
''', re.X)


def tokenize(src):
    pos = 0
    out = []
    while pos < len(src):
        m = TOKEN_RE.match(src, pos)
        if not m:
            raise SyntaxError(f"bad char at {pos}: {src[pos:pos+20]!r}")
        pos = m.end()
        k = m.lastgroup
        if k in ('ws', 'comment'):
            continue
        out.append((k, m.group(k)))
    out.append(('eof', ''))
    return out


@dataclass
class TypeRef:
    """kind: 'named' | 'list' | 'nonnull'"""
    kind: str
    name: Optional[str] = None
    of: Optional['TypeRef'] = None

    def __str__(self):
        if self.kind == 'named':
            return self.name
        if self.kind == 'list':
            return f'[{self.of}]'
        return f'{self.of}!'

    def named(self):
        t = self
        while t.kind != 'named':
            t = t.of
        return t.name

    def qualifiers(self):
        """outer-to-inner list of 'R' / 'L' (graphql-client's representation)."""
        q = []
        t = self
        while t.kind != 'named':
            q.append('R' if t.kind == 'nonnull' else 'L')
            t = t.of
        return q


@dataclass
class FieldDef:
    name: str
    type: TypeRef
    args: list = field(default_factory=list)
    deprecated: Optional[Optional[str]] = None  # None / (None,) style: use tuple
    is_deprecated: bool = False
    deprecation_reason: Optional[str] = None


@dataclass
class TypeDef:
    kind: str  # object interface union enum input scalar
    name: str
    fields: List[FieldDef] = field(default_factory=list)
    interfaces: List[str] = field(default_factory=list)
    members: List[str] = field(default_factory=list)  # union
    values: List[str] = field(default_factory=list)  # enum
    one_of: bool = False


@dataclass
class Schema:
    types: Dict[str, TypeDef] = field(default_factory=dict)
    order: List[str] = field(default_factory=list)
    roots: Dict[str, Optional[str]] = field(default_factory=dict)

    def get(self, name):
        return self.types.get(name)

    def possible_types(self, name):
        t = self.types[name]
        if t.kind == 'object':
            return [name]
        if t.kind == 'union':
            return list(t.members)
        if t.kind == 'interface':
            return [n for n in self.order if self.types[n].kind == 'object' and name in self.types[n].interfaces]
        return []

    def field(self, tname, fname):
        for f in self.types[tname].fields:
            if f.name == fname:
                return f
        return None


BUILTIN_SCALARS = ['Int', 'Float', 'String', 'Boolean', 'ID']


class P:
    def __init__(self, src):
        self.t = tokenize(src)
        self.i = 0

    def peek(self):
        return self.t[self.i]

    def next(self):
        tok = self.t[self.i]
        self.i += 1
        return tok

    def accept(self, kind, val=None):
        k, v = self.t[self.i]
        if k == kind and (val is None or v == val):
            self.i += 1
            return v
        return None

    def expect(self, kind, val=None):
        r = self.accept(kind, val)
        if r is None:
            raise SyntaxError(f"expected {kind} {val}, got {self.t[self.i]} at token {self.i}")
        return r

    # ---- shared
    def type_ref(self):
        if self.accept('punct', '['):
            inner = self.type_ref()
            self.expect('punct', ']')
            t = TypeRef('list', of=inner)
        else:
            t = TypeRef('named', name=self.expect('name'))
        if self.accept('punct', '!'):
            t = TypeRef('nonnull', of=t)
        return t

    def value(self):
        k, v = self.next()
        if k == 'punct' and v == '$':
            return ('var', self.expect('name'))
        if k == 'int':
            return ('int', int(v))
        if k == 'float':
            return ('float', float(v))
        if k == 'str':
            return ('str', unescape(v[1:-1]))
        if k == 'blockstr':
            return ('str', v[3:-3])
        if k == 'name':
            if v in ('true', 'false'):
                return ('bool', v == 'true')
            if v == 'null':
                return ('null', None)
            return ('enum', v)
        if k == 'punct' and v == '[':
            items = []
            while not self.accept('punct', ']'):
                items.append(self.value())
            return ('list', items)
        if k == 'punct' and v == '{':
            items = {}
            while not self.accept('punct', '}'):
                n = self.expect('name')
                self.expect('punct', ':')
                items[n] = self.value()
            return ('object', items)
        raise SyntaxError(f"bad value {k} {v}")

    def arguments(self):
        args = {}
        if self.accept('punct', '('):
            while not self.accept('punct', ')'):
                n = self.expect('name')
                self.expect('punct', ':')
                args[n] = self.value()
        return args

    def directives(self):
        ds = []
        while self.accept('punct', '@'):
            n = self.expect('name')
            ds.append((n, self.arguments()))
        return ds

    def description(self):
        if self.peek()[0] in ('str', 'blockstr'):
            self.next()

    # ---- SDL
    def schema(self):
        s = Schema()
        explicit = False
        while self.peek()[0] != 'eof':
            self.description()
            kw = self.expect('name')
            if kw == 'schema':
                self.directives()
                self.expect('punct', '{')
                explicit = True
                s.roots = {'query': None, 'mutation': None, 'subscription': None}
                while not self.accept('punct', '}'):
                    op = self.expect('name')
                    self.expect('punct', ':')
                    s.roots[op] = self.expect('name')
            elif kw == 'extend':
                kw2 = self.expect('name')
                td = self.type_def(kw2)
                base = s.types[td.name]
                base.fields += td.fields
                base.interfaces += td.interfaces
            elif kw == 'directive':
                # directive @x(args) on A | B
                self.expect('punct', '@')
                self.expect('name')
                if self.accept('punct', '('):
                    depth = 1
                    while depth:
                        k, v = self.next()
                        if (k, v) == ('punct', '('):
                            depth += 1
                        if (k, v) == ('punct', ')'):
                            depth -= 1
                self.accept('name', 'repeatable')
                self.expect('name', 'on')
                self.accept('punct', '|')
                self.expect('name')
                while self.accept('punct', '|'):
                    self.expect('name')
            else:
                td = self.type_def(kw)
                s.types[td.name] = td
                s.order.append(td.name)
        if not explicit:
            s.roots = {op: (nm if nm in s.types and s.types[nm].kind == 'object' else None)
                       for op, nm in (('query', 'Query'), ('mutation', 'Mutation'), ('subscription', 'Subscription'))}
        return s

    def type_def(self, kw):
        kindmap = {'type': 'object', 'interface': 'interface', 'union': 'union', 'enum': 'enum', 'input': 'input', 'scalar': 'scalar'}
        if kw not in kindmap:
            raise SyntaxError(f"unknown definition {kw}")
        td = TypeDef(kindmap[kw], self.expect('name'))
        if td.kind in ('object', 'interface') and self.accept('name', 'implements'):
            self.accept('punct', '&')
            td.interfaces.append(self.expect('name'))
            while True:
                if self.accept('punct', '&'):
                    td.interfaces.append(self.expect('name'))
                elif self.peek()[0] == 'name' and self.peek()[1] not in ():
                    # old-style space-separated implements list
                    if self.peek() == ('punct', '{'):
                        break
                    td.interfaces.append(self.expect('name'))
                else:
                    break
        ds = self.directives()
        if any(n == 'oneOf' for n, _ in ds):
            td.one_of = True
        if td.kind == 'union':
            if self.accept('punct', '='):
                self.accept('punct', '|')
                td.members.append(self.expect('name'))
                while self.accept('punct', '|'):
                    td.members.append(self.expect('name'))
            return td
        if td.kind == 'scalar':
            return td
        if not self.accept('punct', '{'):
            return td
        while not self.accept('punct', '}'):
            self.description()
            if td.kind == 'enum':
                td.values.append(self.expect('name'))
                self.directives()
            else:
                fname = self.expect('name')
                args = []
                if self.accept('punct', '('):
                    while not self.accept('punct', ')'):
                        self.description()
                        an = self.expect('name')
                        self.expect('punct', ':')
                        at = self.type_ref()
                        if self.accept('punct', '='):
                            self.value()
                        self.directives()
                        args.append((an, at))
                self.expect('punct', ':')
                ft = self.type_ref()
                if self.accept('punct', '='):
                    self.value()
                fds = self.directives()
                fd = FieldDef(fname, ft, args)
                for n, a in fds:
                    if n == 'deprecated':
                        fd.is_deprecated = True
                        r = a.get('reason')
                        fd.deprecation_reason = r[1] if r and r[0] == 'str' else None
                        break
                td.fields.append(fd)
        return td

    # ---- query documents
    def document(self):
        ops, frags = [], []
        while self.peek()[0] != 'eof':
            if self.peek() == ('punct', '{'):
                ops.append(Operation('query', None, [], self.selection_set()))
                continue
            kw = self.expect('name')
            if kw == 'fragment':
                name = self.expect('name')
                self.expect('name', 'on')
                on = self.expect('name')
                self.directives()
                frags.append(Fragment(name, on, self.selection_set()))
            elif kw in ('query', 'mutation', 'subscription'):
                name = self.accept('name')
                vars_ = []
                if self.accept('punct', '('):
                    while not self.accept('punct', ')'):
                        self.expect('punct', '$')
                        vn = self.expect('name')
                        self.expect('punct', ':')
                        vt = self.type_ref()
                        dv = None
                        if self.accept('punct', '='):
                            dv = self.value()
                        self.directives()
                        vars_.append(VarDef(vn, vt, dv))
                self.directives()
                ops.append(Operation(kw, name, vars_, self.selection_set()))
            else:
                raise SyntaxError(f"unexpected {kw}")
        return Document(ops, frags)

    def selection_set(self):
        self.expect('punct', '{')
        sels = []
        while not self.accept('punct', '}'):
            if self.accept('spread'):
                if self.peek() == ('name', 'on'):
                    self.next()
                    on = self.expect('name')
                    self.directives()
                    sels.append(Sel('inline', on=on, sels=self.selection_set()))
                elif self.peek()[0] == 'name':
                    n = self.expect('name')
                    self.directives()
                    sels.append(Sel('spread', name=n))
                else:
                    self.directives()
                    sels.append(Sel('inline', on=None, sels=self.selection_set()))
            else:
                n = self.expect('name')
                alias = None
                if self.accept('punct', ':'):
                    alias, n = n, self.expect('name')
                self.arguments()
                self.directives()
                sub = []
                has_sub = False
                if self.peek() == ('punct', '{'):
                    sub = self.selection_set()
                    has_sub = True
                sels.append(Sel('field', name=n, alias=alias, sels=sub, has_sub=has_sub))
        return sels


def unescape(s):
    return bytes(s, 'utf-8').decode('unicode_escape') if '\\' in s else s


@dataclass
class Sel:
    kind: str  # field inline spread
    name: Optional[str] = None
    alias: Optional[str] = None
    on: Optional[str] = None
    sels: list = field(default_factory=list)
    has_sub: bool = False

    @property
    def key(self):
        return self.alias or self.name


@dataclass
class VarDef:
    name: str
    type: TypeRef
    default: Any = None


@dataclass
class Operation:
    kind: str
    name: Optional[str]
    vars: List[VarDef]
    sels: List[Sel]


@dataclass
class Fragment:
    name: str
    on: str
    sels: List[Sel]


@dataclass
class Document:
    ops: List[Operation]
    frags: List[Fragment]

    def frag(self, name):
        for f in self.frags:
            if f.name == name:
                return f
        return None


def parse_schema(src) -> Schema:
    s = P(src).schema()
    for b in BUILTIN_SCALARS:
        if b not in s.types:
            s.types[b] = TypeDef('scalar', b)
    return s


def parse_query(src) -> Document:
    return P(src).document()


if __name__ == '__main__':
    import sys, glob
    for f in sys.argv[1:]:
        src = open(f).read()
        try:
            if 'schema' in f:
                s = parse_schema(src)
                print(f, 'schema ok', len(s.types))
            else:
                d = parse_query(src)
                print(f, 'query ok', [o.name for o in d.ops], [x.name for x in d.frags])
        except SyntaxError as e:
            print(f, 'ERR', e)
