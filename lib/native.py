"""Native side: build and drive the replay tool; parse generated token streams."""
import json
import os
import re
import shutil
import subprocess
import threading

import vp_common as vc

TOOL_SRC = os.path.join(vc.VERIF, 'replay_tool')


class ReplayTool:
    """built lazily (in a background thread when asked) from /verif/replay_tool against /repo"""

    def __init__(self, scratch_dir):
        self.dir = os.path.join(scratch_dir, 'replay_tool')
        self.target = os.path.join(scratch_dir, 'replay_target')
        self.bin = os.path.join(self.target, 'debug', 'verif_replay')
        self.work = os.path.join(scratch_dir, 'replay_work')
        self._thread = None
        self._err = None
        self.build_s = None
        self.n = 0
        self._lock = threading.Lock()

    def start_build(self):
        if self._thread is None:
            self._thread = threading.Thread(target=self._build, daemon=True)
            self._thread.start()

    def _build(self):
        try:
            if os.path.exists(self.dir):
                shutil.rmtree(self.dir)
            shutil.copytree(TOOL_SRC, self.dir)
            p = os.path.join(self.dir, 'Cargo.toml')
            txt = open(p).read().replace('REPO', vc.REPO)
            open(p, 'w').write(txt)
            shutil.copy(os.path.join(vc.REPO, 'Cargo.lock'), os.path.join(self.dir, 'Cargo.lock'))
            rc, out, secs = vc.run(['cargo', 'build', '--offline', '--target-dir', self.target], cwd=self.dir, timeout=1200)
            self.build_s = secs
            if rc != 0:
                self._err = out[-4000:]
        except Exception as e:  # noqa
            self._err = str(e)

    def ready(self):
        self.start_build()
        self._thread.join()
        if self._err:
            raise RuntimeError('replay tool failed to build (does /repo compile?):\n' + self._err)
        os.makedirs(self.work, exist_ok=True)
        return self

    def gen(self, schema_src, query_src, options=None, schema_ext='graphql', timeout=60):
        """returns dict(status='ok'|'err'|'panic'|'crash'|'timeout', text=..., rc=...)"""
        self.ready()
        with self._lock:
            self.n += 1
            n = self.n
        sp = os.path.join(self.work, f's{n}.{schema_ext}')
        qp = os.path.join(self.work, f'q{n}.graphql')
        open(sp, 'w').write(schema_src)
        open(qp, 'w').write(query_src)
        try:
            p = subprocess.run([self.bin, 'gen', sp, qp, json.dumps(options or {})], stdout=subprocess.PIPE, stderr=subprocess.PIPE, text=True, timeout=timeout)
        except subprocess.TimeoutExpired:
            return dict(status='timeout', text='', rc=None)
        finally:
            for f in (sp, qp):
                try:
                    os.unlink(f)
                except OSError:
                    pass
        if p.returncode == 0:
            head, _, body = p.stdout.partition('\n')
            return dict(status='ok' if head == 'OK' else 'err', text=body.strip(), rc=0)
        if p.returncode == 101:
            return dict(status='panic', text=p.stderr.strip()[-2000:], rc=101)
        return dict(status='crash', text=p.stderr.strip()[-2000:], rc=p.returncode)

    def gen_seq(self, pairs, options=None, timeout=120):
        """pairs: [(schema text, query text)] generated one after the other in ONE process -> [(status, text)]"""
        self.ready()
        paths, args = [], []
        with self._lock:
            self.n += 1
            n = self.n
        for k, (s_, q_) in enumerate(pairs):
            sp = os.path.join(self.work, f'seq{n}_{k}.graphql')
            qp = os.path.join(self.work, f'seq{n}_{k}q.graphql')
            open(sp, 'w').write(s_)
            open(qp, 'w').write(q_)
            paths += [sp, qp]
            args += [sp, qp]
        try:
            p = subprocess.run([self.bin, 'gen-seq', json.dumps(options or {})] + args, stdout=subprocess.PIPE, stderr=subprocess.PIPE, text=True, timeout=timeout)
        finally:
            for f in paths:
                try:
                    os.unlink(f)
                except OSError:
                    pass
        lines = [l for l in p.stdout.splitlines() if l.startswith(('OK\t', 'ERR\t'))]
        out = [(l.split('\t', 1)[0].lower(), l.split('\t', 1)[1]) for l in lines]
        while len(out) < len(pairs):
            out.append(('crash', p.stderr[-300:]))
        return out

    def batch(self, items, timeout=120):
        """items: [(cmd, json-able)] -> list of dicts (one per item) from `verif_replay batch`"""
        self.ready()
        text = ''.join(f'{cmd}\t{json.dumps(arg)}\n' for cmd, arg in items)
        p = subprocess.run([self.bin, 'batch'], input=text, stdout=subprocess.PIPE, stderr=subprocess.PIPE, text=True, timeout=timeout)
        lines = [json.loads(l) for l in p.stdout.splitlines() if l.strip()]
        if p.returncode != 0 or len(lines) != len(items):
            raise RuntimeError(f'verif_replay batch: rc={p.returncode}, {len(lines)} answers for {len(items)} items: {p.stderr[-500:]}')
        return lines

    def call(self, *args, timeout=30):
        self.ready()
        p = subprocess.run([self.bin] + list(args), stdout=subprocess.PIPE, stderr=subprocess.PIPE, text=True, timeout=timeout)
        return p.returncode, p.stdout, p.stderr


# ---------------------------------------------------------------- generated code reader

TOK_RE = re.compile(r'''
    (?P<str>r?\#*"(?:\\.|[^"\\])*"\#*)
  | (?P<ident>r\#[A-Za-z_][A-Za-z0-9_]*|[A-Za-z_][A-Za-z0-9_]*)
  | (?P<num>[0-9][A-Za-z0-9_.]*)
  | (?P<punct>::|->|=>|[\#!\[\](){}<>,;:=&*'.?|+\-/@$^%~])
  | (?P<ws>\s+)
''', re.X)


def tokenize(text):
    out = []
    pos = 0
    while pos < len(text):
        m = TOK_RE.match(text, pos)
        if not m:
            raise ValueError(f'cannot tokenize generated code at {text[pos:pos+40]!r}')
        pos = m.end()
        if m.lastgroup != 'ws':
            out.append(m.group(m.lastgroup))
    return out


class Item:
    def __init__(self, kind, name):
        self.kind = kind       # struct | enum | type | mod | const | impl | use | fn
        self.name = name
        self.attrs = []        # list of token lists
        self.fields = []       # struct: (name, type tokens, attrs) ; enum: (variant, payload tokens, attrs)
        self.items = []        # mod
        self.rhs = []          # type alias / const value tokens

    def field(self, name):
        for f in self.fields:
            if f[0] == name:
                return f
        return None


def _group(toks, i):
    """index after the group opened at toks[i] (one of ( [ { <)"""
    pairs = {'(': ')', '[': ']', '{': '}'}
    open_, close = toks[i], pairs[toks[i]]
    depth = 0
    while i < len(toks):
        if toks[i] == open_:
            depth += 1
        elif toks[i] == close:
            depth -= 1
            if depth == 0:
                return i + 1
        i += 1
    raise ValueError('unbalanced group')


def _attrs(toks, i):
    attrs = []
    while i < len(toks) and toks[i] == '#':
        j = i + 1
        if toks[j] == '!':
            j += 1
        e = _group(toks, j)
        attrs.append(toks[j + 1:e - 1])
        i = e
    return attrs, i


def _split_commas(toks):
    out, cur, depth, angle = [], [], 0, 0
    for t in toks:
        if t in '([{':
            depth += 1
        elif t in ')]}':
            depth -= 1
        elif t == '<':
            angle += 1
        elif t == '>':
            angle -= 1
        if t == ',' and depth == 0 and angle == 0:
            out.append(cur)
            cur = []
        else:
            cur.append(t)
    if cur:
        out.append(cur)
    return out


def parse_items(toks):
    items = []
    i = 0
    while i < len(toks):
        attrs, i = _attrs(toks, i)
        if i >= len(toks):
            break
        if toks[i] == 'pub':
            i += 1
            if toks[i] == '(':
                i = _group(toks, i)
        t = toks[i]
        if t == 'struct':
            it = Item('struct', toks[i + 1])
            it.attrs = attrs
            i += 2
            if toks[i] == ';':
                i += 1
            elif toks[i] == '{':
                e = _group(toks, i)
                for f in _split_commas(toks[i + 1:e - 1]):
                    fa, k = _attrs(f, 0)
                    if k < len(f) and f[k] == 'pub':
                        k += 1
                    it.fields.append((f[k], f[k + 2:], fa))
                i = e
            items.append(it)
        elif t == 'enum':
            it = Item('enum', toks[i + 1])
            it.attrs = attrs
            e = _group(toks, i + 2)
            for f in _split_commas(toks[i + 3:e - 1]):
                fa, k = _attrs(f, 0)
                if k >= len(f):
                    continue
                it.fields.append((f[k], f[k + 1:], fa))
            i = e
            items.append(it)
        elif t == 'type':
            it = Item('type', toks[i + 1])
            it.attrs = attrs
            j = toks.index(';', i)
            it.rhs = toks[i + 3:j]
            i = j + 1
            items.append(it)
        elif t == 'const':
            it = Item('const', toks[i + 1])
            j = toks.index(';', i)
            k = toks.index('=', i)
            it.rhs = toks[k + 1:j]
            i = j + 1
            items.append(it)
        elif t == 'mod':
            it = Item('mod', toks[i + 1])
            it.attrs = attrs
            e = _group(toks, i + 2)
            it.items = parse_items(toks[i + 3:e - 1])
            i = e
            items.append(it)
        elif t == 'use':
            j = toks.index(';', i)
            it = Item('use', ' '.join(toks[i + 1:j]))
            i = j + 1
            items.append(it)
        elif t == 'impl':
            j = i
            while toks[j] != '{':
                j += 1
            it = Item('impl', ' '.join(toks[i + 1:j]))
            e = _group(toks, j)
            it.rhs = toks[j + 1:e - 1]
            i = e
            items.append(it)
        elif t == 'fn':
            j = i
            while toks[j] != '{':
                j += 1
            it = Item('fn', toks[i + 1])
            i = _group(toks, j)
            items.append(it)
        else:
            raise ValueError(f'unexpected token {t!r} in generated code near {" ".join(toks[max(0,i-5):i+8])}')
    return items


def parse_generated(text):
    return parse_items(tokenize(text))


def find_mod(items, name=None):
    for it in items:
        if it.kind == 'mod' and (name is None or it.name == name):
            return it
    return None


def find_item(items, name, kind=None):
    for it in items:
        if it.name == name and (kind is None or it.kind == kind):
            return it
    return None


def type_str(toks):
    return ''.join(toks).replace(',', ', ')


def attr_strs(attrs):
    return [''.join(a) for a in attrs]
