"""Shared plumbing for the /verif checks: scratch dirs, Kani runs, evidence, findings."""
import atexit
import concurrent.futures
import hashlib
import json
import os
import re
import shutil
import signal
import subprocess
import sys
import tempfile
import time

VERIF = os.path.dirname(os.path.dirname(os.path.abspath(__file__)))
REPO = os.environ.get('VERIF_REPO', '/repo')
EVIDENCE_DIR = os.path.join(VERIF, 'evidence')
REPLAY_DIR = os.path.join(VERIF, 'replays')
FINDINGS_FILE = os.path.join(VERIF, 'known_findings.json')

ENV = dict(os.environ)
ENV.setdefault('CARGO_NET_OFFLINE', 'true')
ENV['CARGO_TERM_COLOR'] = 'never'


def log(*a):
    print(*a, file=sys.stderr, flush=True)


def tier():
    return os.environ.get('VERIF_TIER', 'quick')


def seed():
    try:
        return int(os.environ.get('VERIF_SEED', '0'))
    except ValueError:
        return 0


def seeds():
    """seeds for the sampled (native) parts: VERIF_SEED and, in the thorough tier, three more"""
    s = seed()
    return [s] if tier() == 'quick' else [s, s + 1, s + 2, s + 3]


_scratch_dirs = []


def scratch(prefix):
    """A scratch directory outside /repo and /verif, removed at exit unless
    VERIF_KEEP_SCRATCH is set (development only)."""
    keep = os.environ.get('VERIF_KEEP_SCRATCH')
    if keep:
        d = os.path.join(keep, prefix)
        os.makedirs(d, exist_ok=True)
        return d
    base = os.environ.get('VERIF_SCRATCH_BASE', tempfile.gettempdir())
    d = tempfile.mkdtemp(prefix=f'verif-{prefix}-', dir=base)
    _scratch_dirs.append(d)
    return d


def _cleanup():
    for d in _scratch_dirs:
        shutil.rmtree(d, ignore_errors=True)


atexit.register(_cleanup)


def _sig(_n, _f):
    _cleanup()
    os._exit(130)


signal.signal(signal.SIGTERM, _sig)


def sha(path_or_text, is_text=False):
    h = hashlib.sha256()
    if is_text:
        h.update(path_or_text.encode())
    else:
        h.update(open(path_or_text, 'rb').read())
    return h.hexdigest()[:16]


def run(cmd, cwd=None, timeout=None, env=None, mem_gb=None):
    """returns (rc, output, seconds); rc = -9 on timeout"""
    e = dict(ENV)
    if env:
        e.update(env)
    t0 = time.time()
    pre = None
    if mem_gb:
        lim = int(mem_gb * 1024 * 1024 * 1024)

        def pre():
            import resource
            resource.setrlimit(resource.RLIMIT_AS, (lim, lim))
            os.setsid()
    else:
        pre = os.setsid
    p = subprocess.Popen(cmd, cwd=cwd, env=e, stdout=subprocess.PIPE, stderr=subprocess.STDOUT, text=True, preexec_fn=pre)
    try:
        out, _ = p.communicate(timeout=timeout)
        rc = p.returncode
    except subprocess.TimeoutExpired:
        try:
            os.killpg(p.pid, signal.SIGKILL)
        except ProcessLookupError:
            pass
        out, _ = p.communicate()
        rc = -9
    return rc, out, time.time() - t0


# ------------------------------------------------------------------ Kani

KANI_TOOLCHAIN_ENV = {}


class KaniResult:
    def __init__(self, harness):
        self.harness = harness
        self.status = 'error'  # success | failed | timeout | error | unwind
        self.seconds = 0.0
        self.failed_checks = []
        self.covers = {}  # description -> SATISFIED / UNSATISFIABLE / UNREACHABLE
        self.playback = None  # list of byte lists
        self.log = ''
        self.solver_s = None

    def to_json(self):
        return dict(harness=self.harness, status=self.status, seconds=round(self.seconds, 1), failed_checks=self.failed_checks[:6],
                    covers=self.covers, solver_s=self.solver_s)


def parse_kani(out, res):
    res.log = out
    m = re.search(r'VERIFICATION:- (SUCCESSFUL|FAILED)', out)
    for fm in re.finditer(r'Failed Checks: (.*)', out):
        res.failed_checks.append(fm.group(1).strip())
    for cm in re.finditer(r'Check \d+: [^\n]*\.cover\.\d+\n\s+- Status: (\w+)\n\s+- Description: "([^"]*)"', out):
        res.covers[cm.group(2)] = cm.group(1)
    sm = re.findall(r'Runtime decision procedure: ([0-9.]+)s', out)
    if sm:
        res.solver_s = round(sum(float(x) for x in sm), 2)
    if 'Status: ERROR' in out or 'CBMC failed' in out or 'out of memory' in out.lower():
        res.status = 'error'
        return
    if m is None:
        res.status = 'error'
        return
    if m.group(1) == 'SUCCESSFUL':
        res.status = 'success'
        return
    # failed: distinguish unwinding failures (bound too small => inconclusive)
    only_unwind = res.failed_checks and all('unwinding assertion' in f for f in res.failed_checks)
    res.status = 'unwind' if only_unwind else 'failed'
    # concrete playback: one generated unit test per failed check *and* per satisfied cover;
    # take the one that belongs to a failed (non-cover) check
    for blk in re.finditer(r'/// Check for `(\w+)`: "([^\n]*)"\s*\n(.*?)kani::concrete_playback_run', out, re.S):
        kind, _desc, body = blk.group(1), blk.group(2), blk.group(3)
        if kind == 'cover' or 'unwinding assertion' in _desc:
            continue
        pb = re.search(r'let concrete_vals: Vec<Vec<u8>> = vec!\[(.*?)\];', body, re.S)
        if pb:
            items = []
            for vm in re.finditer(r'vec!\[([^\]]*)\]', pb.group(1)):
                b = vm.group(1).strip()
                items.append([int(x) for x in b.split(',') if x.strip()] if b else [])
            res.playback = items
            break


def kani_run(crate_dir, harness, target_dir, timeout, extra=(), playback=True, mem_gb=12):
    res = KaniResult(harness)
    cmd = ['cargo', 'kani', '--harness', harness, '--exact', '--target-dir', target_dir]
    if playback:
        cmd += ['-Z', 'concrete-playback', '--concrete-playback=print']
    cmd += list(extra)
    rc, out, secs = run(cmd, cwd=crate_dir, timeout=timeout, mem_gb=mem_gb)
    res.seconds = secs
    if rc == -9:
        res.status = 'timeout'
        res.log = out
        return res
    parse_kani(out, res)
    return res


def kani_build(crate_dir, target_dir, timeout=900):
    """compile once (codegen only) so that per-harness runs start from a warm target dir"""
    rc, out, secs = run(['cargo', 'kani', '--only-codegen', '--target-dir', target_dir], cwd=crate_dir, timeout=timeout)
    return rc, out, secs


def kani_run_many(crate_dir, harnesses, target_dir, timeout, jobs=4, extra=(), on_result=None):
    """Run several harnesses of one crate.  The first run builds; the others reuse
    copies of the warm target dir so that concurrent runs do not share state."""
    results = {}
    if not harnesses:
        return results
    rc, out, secs = kani_build(crate_dir, target_dir)
    if rc != 0:
        for h in harnesses:
            r = KaniResult(h)
            r.status = 'error'
            r.log = out
            results[h] = r
        return results
    jobs = max(1, min(jobs, len(harnesses)))
    tdirs = [target_dir]
    for i in range(1, jobs):
        t = f'{target_dir}-w{i}'
        if not os.path.exists(t):
            subprocess.run(['cp', '-r', target_dir, t], check=False)
        tdirs.append(t)
    import queue
    free = queue.Queue()
    for t in tdirs:
        free.put(t)

    def one(h):
        t = free.get()
        try:
            r = kani_run(crate_dir, h, t, timeout, extra)
        finally:
            free.put(t)
        if on_result:
            on_result(r)
        return r

    with concurrent.futures.ThreadPoolExecutor(max_workers=jobs) as ex:
        for h, r in zip(harnesses, ex.map(one, harnesses)):
            results[h] = r
    for t in tdirs[1:]:
        shutil.rmtree(t, ignore_errors=True)
    return results


def playback_hex(items):
    return ','.join(''.join(f'{b:02x}' for b in it) for it in items)


# ------------------------------------------------------------------ findings / evidence

def load_findings():
    if os.path.exists(FINDINGS_FILE):
        return json.load(open(FINDINGS_FILE))
    return {'known': [], 'fixed': []}


def finding_for(prop, key):
    """a known (unrepaired) finding whose key matches"""
    for f in load_findings().get('known', []):
        if f['property'] == prop and f['key'] == key:
            return f
    return None


def write_evidence(prop, level, coverage, assumptions, wall_s, violations=0, extra=None):
    evdir = EVIDENCE_DIR
    if os.environ.get('VERIF_NO_EVIDENCE') or REPO != '/repo':
        # runs against a scratch copy of the repository (seeded changes) must not touch the committed evidence
        evdir = os.path.join(tempfile.gettempdir(), 'verif-evidence-scratch')
    os.makedirs(evdir, exist_ok=True)
    ev = dict(property_id=prop, tier=tier(), seed=seed(), level=level, coverage=coverage, assumptions=assumptions,
              wall_s=round(wall_s, 1), violations=violations)
    if extra:
        ev.update(extra)
    path = os.path.join(evdir, f'{prop}.json')
    tmp = path + '.tmp'
    json.dump(ev, open(tmp, 'w'), indent=1, default=str)
    os.replace(tmp, path)
    return path


def write_replay(prop, name, payload):
    d = os.path.join(REPLAY_DIR, prop)
    os.makedirs(d, exist_ok=True)
    path = os.path.join(d, f'{name}.json')
    json.dump(payload, open(path, 'w'), indent=1, default=str)
    return path


class Outcome:
    """Collects what a check found and turns it into exit code + lines."""

    def __init__(self, prop):
        self.prop = prop
        self.violations = []   # (key, description, replay_path)
        self.known = []
        self.inconclusive = []

    def violation(self, key, desc, replay_payload):
        f = finding_for(self.prop, key)
        if f:
            if not any(k == key for k, _ in self.known):
                self.known.append((key, desc))
            return
        if any(k == key for k, _, _ in self.violations):
            return          # one report (and one replay file) per role
        path = write_replay(self.prop, re.sub(r'[^A-Za-z0-9_.-]', '_', key)[:80], replay_payload)
        self.violations.append((key, desc, path))

    def inconc(self, what):
        self.inconclusive.append(what)

    def finish(self):
        for key, desc in self.known:
            print(f'KNOWN-FINDING: property={self.prop} {key}: {desc}')
        for key, desc, path in self.violations:
            print(f'VIOLATION property={self.prop} replay={path}')
            print(f'  {key}: {desc}')
        if self.violations:
            return 1
        if self.inconclusive:
            for w in self.inconclusive:
                print(f'INCONCLUSIVE property={self.prop} {w}')
            return 2
        print(f'OK property={self.prop}')
        return 0
