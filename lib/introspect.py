"""Render a gql.Schema as an introspection result (the JSON a server would return).
Oracle-side code, written from the GraphQL specification's introspection schema."""
import json

import gql


def type_ref(t):
    if t.kind == 'nonnull':
        return {'kind': 'NON_NULL', 'name': None, 'ofType': type_ref(t.of)}
    if t.kind == 'list':
        return {'kind': 'LIST', 'name': None, 'ofType': type_ref(t.of)}
    return {'kind': None, 'name': t.name, 'ofType': None}  # kind filled in by caller


KIND = {'object': 'OBJECT', 'interface': 'INTERFACE', 'union': 'UNION', 'enum': 'ENUM', 'input': 'INPUT_OBJECT', 'scalar': 'SCALAR'}


def _fill(schema, ref):
    r = ref
    while r.get('ofType'):
        r = r['ofType']
    td = schema.get(r['name'])
    r['kind'] = KIND[td.kind] if td else 'SCALAR'
    return ref


def to_introspection(schema: gql.Schema, wrap_data=False, include_builtin=True, order=None):
    types = []
    names = list(order or schema.order)
    if include_builtin:
        for b in gql.BUILTIN_SCALARS:
            if b not in names:
                names.append(b)
    for name in names:
        td = schema.types[name]
        t = {'kind': KIND[td.kind], 'name': name, 'description': None, 'fields': None, 'inputFields': None, 'interfaces': None,
             'enumValues': None, 'possibleTypes': None}
        if td.kind in ('object', 'interface'):
            t['fields'] = [{
                'name': f.name, 'description': None,
                'args': [{'name': an, 'description': None, 'type': _fill(schema, type_ref(at)), 'defaultValue': None} for an, at in f.args],
                'type': _fill(schema, type_ref(f.type)), 'isDeprecated': bool(f.is_deprecated), 'deprecationReason': f.deprecation_reason,
            } for f in td.fields]
            t['interfaces'] = [{'kind': 'INTERFACE', 'name': i, 'ofType': None} for i in td.interfaces] if td.kind == 'object' else []
            if td.kind == 'interface':
                t['possibleTypes'] = [{'kind': 'OBJECT', 'name': n, 'ofType': None} for n in schema.possible_types(name)]
        elif td.kind == 'union':
            t['possibleTypes'] = [{'kind': 'OBJECT', 'name': n, 'ofType': None} for n in td.members]
        elif td.kind == 'enum':
            t['enumValues'] = [{'name': v, 'description': None, 'isDeprecated': False, 'deprecationReason': None} for v in td.values]
        elif td.kind == 'input':
            t['inputFields'] = [{'name': f.name, 'description': None, 'type': _fill(schema, type_ref(f.type)), 'defaultValue': None} for f in td.fields]
            if td.one_of:
                t['isOneOf'] = True
        types.append(t)
    s = {'__schema': {
        'queryType': {'name': schema.roots['query']} if schema.roots.get('query') else None,
        'mutationType': {'name': schema.roots['mutation']} if schema.roots.get('mutation') else None,
        'subscriptionType': {'name': schema.roots['subscription']} if schema.roots.get('subscription') else None,
        'types': types, 'directives': []}}
    if wrap_data:
        s = {'data': s}
    return json.dumps(s, indent=1)
