"""Native replay through a real consumer crate: derive the operation with the working-tree macro,
compile with rustc, feed payloads to serde_json.  Used to confirm solver counterexamples."""
import json
import os
import shutil

import vp_common as vc

CARGO = '''[package]
name = "verif_consumer"
version = "0.0.0"
edition = "2021"
[dependencies]
graphql_client = { path = "REPO/graphql_client" }
serde = { version = "1", features = ["derive"] }
serde_json = "1"
[workspace]
[profile.dev]
debug = false
incremental = false
'''

MAIN = r'''#![allow(dead_code, non_snake_case, non_camel_case_types, deprecated)]
use graphql_client::GraphQLQuery;
SCALARS
#[derive(GraphQLQuery)]
#[graphql(schema_path = "gql/schema.EXT", query_path = "gql/query.graphql", ATTRS response_derives = "Debug,Serialize,PartialEq", variables_derives = "Debug,Deserialize,PartialEq")]
pub struct OPNAME;

fn main() {
    let args: Vec<String> = std::env::args().collect();
    let what = args[1].as_str();
    for p in &args[2..] {
        match what {
            "response" => match serde_json::from_str::<MODNAME::ResponseData>(p) {
                Ok(v) => println!("OK {}", serde_json::to_string(&v).unwrap()),
                Err(e) => println!("ERR {}", e),
            },
            "debug" => match serde_json::from_str::<MODNAME::ResponseData>(p) {
                Ok(v) => println!("OK {}", serde_json::to_string(&format!("{:?}", v)).unwrap()),
                Err(e) => println!("ERR {}", e),
            },
            "variables" => match serde_json::from_str::<MODNAME::Variables>(p) {
                Ok(v) => println!("OK {}", serde_json::to_string(&OPNAME::build_query(v)).unwrap()),
                Err(e) => println!("ERR {}", e),
            },
            _ => panic!("usage"),
        }
    }
}
'''


class Consumer:
    def __init__(self, scratch_dir, name='consumer'):
        self.dir = os.path.join(scratch_dir, name)
        self.target = os.path.join(scratch_dir, 'consumer-target')

    def build(self, schema_src, query_src, opname, modname, attrs='', scalars=None, schema_ext='graphql'):
        """returns None on success, else the compiler output"""
        if os.path.exists(self.dir):
            shutil.rmtree(self.dir)
        os.makedirs(os.path.join(self.dir, 'src'))
        os.makedirs(os.path.join(self.dir, 'gql'))
        open(os.path.join(self.dir, 'Cargo.toml'), 'w').write(CARGO.replace('REPO', vc.REPO))
        shutil.copy(os.path.join(vc.REPO, 'Cargo.lock'), os.path.join(self.dir, 'Cargo.lock'))
        open(os.path.join(self.dir, 'gql', f'schema.{schema_ext}'), 'w').write(schema_src)
        open(os.path.join(self.dir, 'gql', 'query.graphql'), 'w').write(query_src)
        sc = '\n'.join(f'pub type {k} = {v};' for k, v in (scalars or {}).items())
        main = MAIN.replace('SCALARS', sc).replace('EXT', schema_ext).replace('ATTRS', attrs).replace('OPNAME', opname).replace('MODNAME', modname)
        open(os.path.join(self.dir, 'src', 'main.rs'), 'w').write(main)
        rc, out, secs = vc.run(['cargo', 'build', '--offline', '--target-dir', self.target], cwd=self.dir, timeout=900)
        self.build_s = secs
        if rc != 0:
            return out[-5000:]
        self.bin = os.path.join(self.target, 'debug', 'verif_consumer')
        return None

    def run(self, what, payloads):
        import subprocess
        p = subprocess.run([self.bin, what] + [json.dumps(x) if not isinstance(x, str) else x for x in payloads], stdout=subprocess.PIPE, stderr=subprocess.PIPE, text=True)
        out = []
        for ln in p.stdout.strip().split('\n'):
            if ln.startswith('OK '):
                out.append(('ok', json.loads(ln[3:])))
            elif ln.startswith('ERR '):
                out.append(('err', ln[4:]))
        return out
